import BSEModel.Printing
import BSEGen.Writers
import BSEProofs.Lemmas.NwchemRT
import BSEProofs.Lemmas.NwchemEcp
import BSEModel.G94
import BSEModel.G94Ecp
import BSEModel.Turbomole
/-! # C04 — every writer emits every number of the basis, unrounded -/
namespace BSE.Props.C04
open BSE BSE.Printing BSE.Gen.Writers

/-! ## (i) write_matrix prints every cell verbatim, separated by blanks -/

theorem tokensAux_spaces (n : Nat) (s : Str) : tokensAux (List.replicate n ' ' ++ s) [] = tokensAux s [] := by
  induction n with
  | zero => simp
  | succ k ih => simp [List.replicate_succ, tokensAux, ih]

theorem tokensAux_word (w s cur : Str) (hw : ∀ c ∈ w, c ≠ ' ') :
    tokensAux (w ++ s) cur = tokensAux s (w.reverse ++ cur) := by
  induction w generalizing cur with
  | nil => simp
  | cons c cs ih =>
    have hc : c ≠ ' ' := hw c (by simp)
    simp only [List.cons_append, tokensAux, hc, if_false]
    rw [ih (c :: cur) (fun x hx => hw x (by simp [hx]))]
    simp

theorem tokensAux_single (w : Str) (hne : w ≠ []) (hw : ∀ c ∈ w, c ≠ ' ') : tokensAux w [] = [w] := by
  have := tokensAux_word w [] [] hw
  simp only [List.append_nil] at this
  rw [this]
  have : w.reverse.isEmpty = false := by cases w <;> simp_all
  simp [tokensAux, this]

/-- a well-formed cell text: non-empty, no blank inside -/
def WordOk (w : Str) : Prop := w ≠ [] ∧ ∀ c ∈ w, c ≠ ' '

/-- tokens of `line ++ blanks ++ word` when `line` is itself a sequence of complete tokens -/
theorem tokens_append_word (line w : Str) (n : Nat) (hw : WordOk w) (hn : line = [] ∨ n ≥ 1) :
    tokens (line ++ List.replicate n ' ' ++ w) = tokens line ++ [w] := by
  unfold tokens
  -- generalise over the accumulator
  have key : ∀ (l cur : Str), (l = [] ∧ cur = [] ∨ n ≥ 1) →
      tokensAux (l ++ List.replicate n ' ' ++ w) cur = tokensAux l cur ++ [w] := by
    intro l
    induction l with
    | nil =>
      intro cur h
      simp only [List.nil_append]
      rcases h with ⟨_, rfl⟩ | hn1
      · rw [tokensAux_spaces, tokensAux_single w hw.1 hw.2]
        simp [tokensAux]
      · obtain ⟨k, rfl⟩ : ∃ k, n = k + 1 := ⟨n - 1, by omega⟩
        simp only [List.replicate_succ, List.cons_append, tokensAux, if_true]
        by_cases hcur : cur.isEmpty = true
        · simp only [hcur, if_true]
          rw [tokensAux_spaces, tokensAux_single w hw.1 hw.2]
          have : cur = [] := by simpa using hcur
          subst this
          simp [tokensAux]
        · simp only [hcur, Bool.false_eq_true, if_false]
          rw [tokensAux_spaces, tokensAux_single w hw.1 hw.2]
          have hne : cur ≠ [] := by simpa using hcur
          cases cur with
          | nil => exact absurd rfl hne
          | cons a as => simp [tokensAux]
    | cons c cs ih =>
      intro cur h
      simp only [List.cons_append, tokensAux]
      by_cases hc : c = ' '
      · simp only [hc, if_true]
        rcases h with ⟨hl, _⟩ | hn1
        · cases hl
        · by_cases hcur : cur.isEmpty = true
          · simp only [hcur, if_true]; exact ih [] (Or.inr hn1)
          · simp only [hcur, Bool.false_eq_true, if_false, List.cons_append]
            rw [ih [] (Or.inr hn1)]
      · simp only [hc, if_false]
        rcases h with ⟨hl, _⟩ | hn1
        · cases hl
        · exact ih (c :: cur) (Or.inr hn1)
  rcases hn with rfl | hn1
  · simpa using key [] [] (Or.inl ⟨rfl, rfl⟩)
  · exact key line [] (Or.inr hn1)

/-- **one printed row, read back as blank-separated tokens, is exactly the list of its cells** —
whatever the padding: no cell is dropped, glued to its neighbour or changed -/
theorem rowLine_tokens (cells : List (Nat × Str)) (line : Str) (hc : ∀ p ∈ cells, WordOk p.2) :
    tokens (rowLine cells line) = tokens line ++ cells.map (·.2) := by
  induction cells generalizing line with
  | nil => simp [rowLine]
  | cons p rest ih =>
    obtain ⟨pad, txt⟩ := p
    simp only [rowLine]
    rw [ih _ (fun q hq => hc q (by simp [hq]))]
    have hw : WordOk txt := hc (pad, txt) (by simp)
    by_cases hl : line.isEmpty = true
    · have : line = [] := by simpa using hl
      subst this
      simp only [List.isEmpty_nil, if_true]
      rw [tokens_append_word [] txt _ hw (Or.inl rfl)]
      simp
    · simp only [hl, Bool.false_eq_true, if_false]
      rw [tokens_append_word line txt _ hw (Or.inr (by omega))]
      simp

theorem writeMatrix_row_tokens (cells : List (Nat × Str)) (hc : ∀ p ∈ cells, WordOk p.2) :
    tokens (rowLine cells []) = cells.map (·.2) := by
  have := rowLine_tokens cells [] hc
  simpa [tokens, tokensAux] using this

/-- the exponent-marker conversion touches nothing but `e`/`E` -/
theorem convExp_only_marker (s : Str) (i : Nat) (c : Char) (h : (convExp true s)[i]? = some c) :
    ∃ c0, s[i]? = some c0 ∧ (c = c0 ∨ ((c0 = 'e' ∨ c0 = 'E') ∧ c = 'D')) := by
  simp only [convExp, if_true, List.getElem?_map] at h
  cases hs : s[i]? with
  | none => simp [hs] at h
  | some c0 =>
    simp only [hs, Option.map_some, Option.some.injEq] at h
    refine ⟨c0, rfl, ?_⟩
    by_cases he : c0 = 'e' ∨ c0 = 'E'
    · right; exact ⟨he, by simp [he] at h; exact h.symm⟩
    · left; simp [he] at h; exact h.symm

theorem convExp_false (s : Str) : convExp false s = s := by simp [convExp]

/-! ## (ii) the function-type gate, over the regenerated writer map -/

/-- `ftypes <= writer['valid']` -/
def gateOk (valid : Option (List String)) (ftypes : List String) : Bool :=
  match valid with
  | none => true
  | some v => ftypes.all (v.contains ·)

/-- a type the format cannot express closes the gate (RuntimeError instead of silent omission) -/
theorem gate_rejects (v : List String) (ftypes : List String) (t : String) (ht : t ∈ ftypes) (hv : t ∉ v) :
    gateOk (some v) ftypes = false := by
  simp only [gateOk]
  apply List.all_eq_false.2
  exact ⟨t, ht, by simpa using hv⟩

/-- every format of the source has a gate entry; the only gate-less ones are the library's own dumps -/
theorem gateless_formats : (writerMap.filter (fun e => e.2.2.1.isNone)).map (·.1) = ["bsedebug", "json"] := by decide

/-- formats that cannot express ECPs / cartesian functions say so in their gate -/
theorem restricted_gates :
    (writerMap.filter (fun e => match e.2.2.1 with | some v => !v.contains "scalar_ecp" | none => false)).map (·.1)
      = ["fhiaims", "veloxchem"] := by decide

/-! ## (iii) every writer's normalisation pipeline only uses function-set-preserving operations -/

/-- re-contraction steps proved to preserve the contracted function set (C02) or its span (C07) -/
def preserving : Op → Bool
  | .uncontractGeneral | .uncontractSpdf _ | .makeGeneral _ | .sortBasis | .pruneBasis => true
  | .optimizeGeneral => true      -- span-preserving (C07); used by veloxchem only
  | _ => false

theorem pipelines_preserve : ∀ p ∈ pipelines, ∀ st ∈ p.2, preserving st.op = true := by decide

theorem optimize_only_veloxchem : (pipelines.filter (fun p => p.2.any (fun st => st.op == .optimizeGeneral))).map (·.1) = ["veloxchem"] := by
  decide

/-- every format of the writer map has a pipeline entry (possibly empty) -/
theorem every_format_has_pipeline : writerMap.map (·.1) = pipelines.map (·.1) := by decide

example : tokens "  1.0   -2.5D+00 3".toList = ["1.0".toList, "-2.5D+00".toList, "3".toList] := by decide +kernel
example : WordOk "1.0".toList := ⟨by decide, by decide⟩

/-! ## (iv) one whole writer at token level: NWChem prints every primitive and every ECP term -/

open BSE.Nwchem in
/-- **NWChem electron section covers the basis**: for every element, every shell and every primitive `i` there is a
row line holding exactly the exponent `i` followed by coefficient `i` of every contraction, in order -/
theorem nwchem_writer_covers_shells {ν : Type} (T : Tables ν) (harm : Nwchem.Str) (els : List (Nat × List (EShell ν)))
    (e : Nat × List (EShell ν)) (he : e ∈ els) (sh : EShell ν) (hsh : sh ∈ e.2)
    (hr : Rect sh.exps.length sh.coefs) (i : Nat) (hi : i < sh.exps.length) :
    Line.row (sh.exps[i] :: sh.coefs.filterMap (·[i]?)) ∈ electronLines T harm els := by
  have hrect : Rect sh.exps.length (sh.exps :: sh.coefs) := by
    intro c hc
    rcases List.mem_cons.1 hc with rfl | h
    · rfl
    · exact hr c h
  have hrow : (sh.exps[i] :: sh.coefs.filterMap (·[i]?)) ∈ zipStar (sh.exps :: sh.coefs) := by
    rw [zipStar_closed (m := sh.exps :: sh.coefs) (by simp) hrect]
    exact List.mem_map.2 ⟨i, List.mem_range.2 hi, by simp [List.filterMap_cons, List.getElem?_eq_getElem hi]⟩
  unfold electronLines
  apply List.mem_cons_of_mem
  apply List.mem_append_left
  exact List.mem_flatMap.2 ⟨e, he, List.mem_flatMap.2 ⟨sh, hsh, by
    unfold shellLines
    exact List.mem_cons_of_mem _ (List.mem_map.2 ⟨_, hrow, rfl⟩)⟩⟩

open BSE.Nwchem in
/-- **NWChem ECP section covers the ECP**: every term `(r exponent, gaussian exponent, coefficient)` of every potential
of every element is a row line, and the electron count is on the element's `nelec` line -/
theorem nwchem_writer_covers_ecp {ν : Type} (T : EcpTables ν) (els : List (Nat × Nwchem.Str × List (EPot ν)))
    (e : Nat × Nwchem.Str × List (EPot ν)) (he : e ∈ els) :
    Line.head [T.symOf e.1, "nelec".toList, e.2.1] ∈ ecpLines T els
    ∧ ∀ p ∈ e.2.2, ∀ t ∈ p.terms, Line.row [t.1, t.2.1, t.2.2] ∈ ecpLines T els := by
  unfold ecpLines
  refine ⟨?_, ?_⟩
  · apply List.mem_cons_of_mem
    apply List.mem_append_left
    exact List.mem_flatMap.2 ⟨e, he, by simp [ecpElementLines]⟩
  · intro p hp t ht
    apply List.mem_cons_of_mem
    apply List.mem_append_left
    refine List.mem_flatMap.2 ⟨e, he, ?_⟩
    unfold ecpElementLines
    apply List.mem_cons_of_mem
    refine List.mem_flatMap.2 ⟨p, (mem_writeOrder e.2.2 p).2 hp, ?_⟩
    unfold potLines
    exact List.mem_cons_of_mem _ (List.mem_map.2 ⟨t, ht, rfl⟩)

open BSE.G94 BSE.Nwchem in
/-- **Gaussian94 electron block covers the element**: the element's symbol line comes first, the block ends with `****`, and for
every shell and every primitive `i` there is a row holding exactly exponent `i` followed by coefficient `i` of every contraction -/
theorem g94_writer_covers_shells {ν : Type} (T : GTables ν) (z : Nat) (shells : List (EShell ν))
    (sh : EShell ν) (hsh : sh ∈ shells) (hr : Rect sh.exps.length sh.coefs) (i : Nat) (hi : i < sh.exps.length) :
    GLine.row (sh.exps[i] :: sh.coefs.filterMap (·[i]?)) ∈ electronBlock T z shells
    ∧ GLine.head [T.amStr sh.am, T.natStr sh.exps.length, "1.00".toList] ∈ electronBlock T z shells := by
  have hrect : Rect sh.exps.length (sh.exps :: sh.coefs) := by
    intro c hc
    rcases List.mem_cons.1 hc with rfl | h
    · rfl
    · exact hr c h
  have hrow : (sh.exps[i] :: sh.coefs.filterMap (·[i]?)) ∈ zipStar (sh.exps :: sh.coefs) := by
    rw [zipStar_closed (m := sh.exps :: sh.coefs) (by simp) hrect]
    exact List.mem_map.2 ⟨i, List.mem_range.2 hi, by simp [List.filterMap_cons, List.getElem?_eq_getElem hi]⟩
  unfold electronBlock
  refine ⟨?_, ?_⟩
  · apply List.mem_cons_of_mem
    apply List.mem_append_left
    exact List.mem_flatMap.2 ⟨sh, hsh, by
      unfold G94.shellLines
      exact List.mem_cons_of_mem _ (List.mem_map.2 ⟨_, hrow, rfl⟩)⟩
  · apply List.mem_cons_of_mem
    apply List.mem_append_left
    exact List.mem_flatMap.2 ⟨sh, hsh, by unfold G94.shellLines; exact List.mem_cons_self⟩

open BSE.G94 BSE.Nwchem in
/-- **Gaussian94 ECP block covers the ECP**: the electron count stands on the element's `SYM-ECP` line and every term
`(r exponent, gaussian exponent, coefficient)` of every potential is a row of the block -/
theorem g94_writer_covers_ecp {ν : Type} (T : ETables ν) (z : Nat) (nelec : ν) (pots : List (EPot ν)) :
    ELine.other [T.tagTok z, T.natTok ((pots.map (·.am)).foldl max 0), nelec] ∈ G94.ecpBlock T z nelec pots
    ∧ ∀ p ∈ pots, ∀ t ∈ p.terms, ELine.other [t.1, t.2.1, t.2.2] ∈ G94.ecpBlock T z nelec pots := by
  unfold G94.ecpBlock
  refine ⟨by simp, ?_⟩
  intro p hp t ht
  apply List.mem_cons_of_mem
  apply List.mem_cons_of_mem
  refine List.mem_flatMap.2 ⟨p, (mem_writeOrder pots p).2 hp, ?_⟩
  unfold potLinesE
  exact List.mem_cons_of_mem _ (List.mem_cons_of_mem _ (List.mem_map.2 ⟨t, ht, rfl⟩))

open BSE.Turbomole BSE.Nwchem in
/-- **Turbomole electron section covers the basis**: every element is named, and for every shell and primitive `i` there is a
row holding exactly exponent `i` followed by coefficient `i` of every contraction -/
theorem turbomole_writer_covers_shells {ν : Type} (T : TTables ν) (name : Nwchem.Str) (els : List (Nat × List (EShell ν)))
    (e : Nat × List (EShell ν)) (he : e ∈ els) :
    TLine.elem (T.symOf e.1) name ∈ electronLinesT T name els
    ∧ ∀ sh ∈ e.2, Rect sh.exps.length sh.coefs → ∀ i (hi : i < sh.exps.length),
        TLine.row (sh.exps[i] :: sh.coefs.filterMap (·[i]?)) ∈ electronLinesT T name els := by
  unfold electronLinesT
  refine ⟨?_, ?_⟩
  · apply List.mem_cons_of_mem
    exact List.mem_flatMap.2 ⟨e, he, by unfold elementLinesT; exact List.mem_cons_self⟩
  · intro sh hsh hr i hi
    have hrect : Rect sh.exps.length (sh.exps :: sh.coefs) := by
      intro c hc
      rcases List.mem_cons.1 hc with rfl | h
      · rfl
      · exact hr c h
    have hrow : (sh.exps[i] :: sh.coefs.filterMap (·[i]?)) ∈ zipStar (sh.exps :: sh.coefs) := by
      rw [zipStar_closed (m := sh.exps :: sh.coefs) (by simp) hrect]
      exact List.mem_map.2 ⟨i, List.mem_range.2 hi, by simp [List.getElem?_eq_getElem hi]⟩
    apply List.mem_cons_of_mem
    refine List.mem_flatMap.2 ⟨e, he, ?_⟩
    unfold elementLinesT
    apply List.mem_cons_of_mem
    apply List.mem_cons_of_mem
    apply List.mem_append_left
    exact List.mem_flatMap.2 ⟨sh, hsh, by
      unfold shellLinesT
      exact List.mem_cons_of_mem _ (List.mem_map.2 ⟨_, hrow, rfl⟩)⟩

end BSE.Props.C04
