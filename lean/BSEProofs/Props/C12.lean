import BSEModel.Augment
import BSEGen.Manip
/-! # C12 — augmentation only adds, calendarisation only removes, by the documented rules -/
namespace BSE.Props.C12
open BSE BSE.Aug

theorem powR_pos (b : Rat) (hb : 0 < b) (n : Nat) : 0 < powR b n := by
  induction n with
  | zero => simp only [powR]; decide
  | succ k ih => simp only [powR]; exact Rat.mul_pos hb ih

theorem powR_lt_one (b : Rat) (hb0 : 0 < b) (hb1 : b < 1) (n : Nat) : powR b (n + 1) < 1 := by
  induction n with
  | zero => simp [powR]; grind
  | succ k ih =>
    have hp := powR_pos b hb0 (k + 1)
    show b * powR b (k + 1) < 1
    have : b * powR b (k + 1) < 1 * powR b (k + 1) := (Rat.mul_lt_mul_right hp).2 hb1
    grind

theorem one_lt_powR (b : Rat) (hb1 : 1 < b) (n : Nat) : 1 < powR b (n + 1) := by
  induction n with
  | zero => simp [powR]; grind
  | succ k ih =>
    have hb0 : 0 < b := by grind
    have hp := powR_pos b hb0 (k + 1)
    show 1 < b * powR b (k + 1)
    have : 1 * powR b (k + 1) < b * powR b (k + 1) := (Rat.mul_lt_mul_right hp).2 hb1
    grind

theorem div_lt_one (x y : Rat) (hx : 0 < x) (hxy : x < y) : 0 < x / y ∧ x / y < 1 := by
  have hy : 0 < y := by grind
  have hyi : 0 < y⁻¹ := Rat.inv_pos.2 hy
  rw [Rat.div_def]
  refine ⟨Rat.mul_pos hx hyi, ?_⟩
  have h1 : x * y⁻¹ < y * y⁻¹ := (Rat.mul_lt_mul_right hyi).2 hxy
  have h2 : y * y⁻¹ = 1 := Rat.mul_inv_cancel y (by grind)
  grind

theorem one_lt_div (x y : Rat) (hy : 0 < y) (hyx : y < x) : 1 < x / y := by
  have hyi : 0 < y⁻¹ := Rat.inv_pos.2 hy
  rw [Rat.div_def]
  have h1 : y * y⁻¹ < x * y⁻¹ := (Rat.mul_lt_mul_right hyi).2 hyx
  have h2 : y * y⁻¹ = 1 := Rat.mul_inv_cancel y (by grind)
  grind

/-- **diffuse augmentation: every new exponent x·(x/y)^i lies strictly below the smallest original
exponent x (and is positive)**, for the outermost x and the next one y > x -/
theorem diffuse_strictly_outside (x y : Rat) (hx : 0 < x) (hxy : x < y) (i : Nat) :
    0 < x * powR (x / y) (i + 1) ∧ x * powR (x / y) (i + 1) < x := by
  obtain ⟨h0, h1⟩ := div_lt_one x y hx hxy
  have hp := powR_pos (x / y) h0 (i + 1)
  have hl := powR_lt_one (x / y) h0 h1 i
  refine ⟨Rat.mul_pos hx hp, ?_⟩
  have : x * powR (x / y) (i + 1) < x * 1 := (Rat.mul_lt_mul_left hx).2 hl
  grind

/-- **steep augmentation: every new exponent lies strictly above the largest original exponent** -/
theorem steep_strictly_outside (x y : Rat) (hy : 0 < y) (hyx : y < x) (i : Nat) :
    x < x * powR (x / y) (i + 1) := by
  have hx : 0 < x := by grind
  have hl := one_lt_powR (x / y) (one_lt_div x y hy hyx) i
  have : x * 1 < x * powR (x / y) (i + 1) := (Rat.mul_lt_mul_left hx).2 hl
  grind

/-- successive new exponents keep the ratio x/y (even-tempered) -/
theorem even_tempered (x y : Rat) (i : Nat) :
    x * powR (x / y) (i + 2) = (x / y) * (x * powR (x / y) (i + 1)) := by
  simp only [powR]; grind

variable {ν : Type}

theorem newFrom_spec (x y : Rat) (bf : Bool) (nadd : Nat) (l : List Rat) (h : newFrom x y bf nadd = some l) :
    x ≠ y ∧ ((bf = false ∧ l = []) ∨ (bf = true ∧ l = (List.range nadd).map fun i => x * powR (x / y) (i + 1))) := by
  unfold newFrom at h
  by_cases hxy : x = y
  · simp [hxy] at h
  · simp only [hxy, if_false] at h
    cases bf with
    | false =>
      simp only [Bool.not_false, if_true, Option.some.injEq] at h
      exact ⟨hxy, Or.inl ⟨rfl, h.symm⟩⟩
    | true =>
      simp only [Bool.not_true, Bool.false_eq_true, if_false, Option.some.injEq] at h
      exact ⟨hxy, Or.inr ⟨rfl, h.symm⟩⟩

/-- **per shell exactly `n` functions or none**, given by the formula from the outermost exponent
`x` and the next one `y` — and none unless both are free primitives; equal outer exponents raise -/
theorem newExponents_spec (val : ν → Rat) (nadd : Nat) (steep : Bool) (sh : Shell ν) (l : List Rat)
    (h : newExponents val nadd steep sh = some l) :
    l = [] ∨ (l.length = nadd ∧ ∃ x y : Rat, x ≠ y ∧ l = (List.range nadd).map fun i => x * powR (x / y) (i + 1)) := by
  unfold newExponents at h
  simp only at h
  cases ho : outerPair (sh.exps.map val) steep with
  | none =>
    simp only [ho, Option.some.injEq] at h
    exact Or.inl h.symm
  | some rn =>
    obtain ⟨r, n⟩ := rn
    simp only [ho] at h
    obtain ⟨hne, hcase⟩ := newFrom_spec _ _ _ _ _ h
    rcases hcase with ⟨_, hl⟩ | ⟨_, hl⟩
    · exact Or.inl hl
    · exact Or.inr ⟨by rw [hl]; simp, _, _, hne, hl⟩

/-- the added function has unit coefficient: the literal of the code is a one (read from the source) -/
theorem augOne_is_one : numVal BSE.Gen.Manip.augOne = 1 := by decide +kernel

/-- `geometric_augmentation` merges by momentum first (`make_general`, fused shells split), on a copy -/
theorem augment_calls : BSE.Gen.Manip.augmentCalls = [⟨.makeGeneral false, true⟩] := by decide

/-! ## truhlar_calendarize -/

/-- momenta stripped for `n` removals from an element whose highest momentum is `m` -/
def target (m n : Nat) : List Nat := (List.range n).filterMap fun k => if k ≤ m then some (m - k) else none

/-- **successive months form a chain**: what month k strips, month k+1 strips too -/
theorem target_chain (m n : Nat) (l : Nat) (h : l ∈ target m n) : l ∈ target m (n + 1) := by
  unfold target at *
  simp only [List.mem_filterMap, List.mem_range] at *
  obtain ⟨k, hk, hl⟩ := h
  exact ⟨k, by omega, hl⟩

/-- the k highest momenta are stripped: `l` is stripped iff `m - k < l ≤ m` -/
theorem mem_target (m n l : Nat) : l ∈ target m n ↔ l ≤ m ∧ m < l + n := by
  unfold target
  simp only [List.mem_filterMap, List.mem_range]
  constructor
  · rintro ⟨k, hk, hl⟩
    split at hl
    · cases hl; omega
    · cases hl
  · rintro ⟨h1, h2⟩
    exact ⟨m - l, by omega, by simp [show m - l ≤ m by omega]; omega⟩

/-- **removing a primitive only removes**: the exponents left are the old ones minus position `i`,
and every coefficient column left is an old column minus that position -/
theorem removePrimitive_only_removes (val : ν → Rat) (sh : Shell ν) (i : Nat) :
    (removePrimitive val sh i).exps = sh.exps.eraseIdx i
      ∧ ∀ c ∈ (removePrimitive val sh i).coefs, ∃ c0 ∈ sh.coefs, c = c0.eraseIdx i := by
  refine ⟨rfl, ?_⟩
  intro c hc
  simp only [removePrimitive, List.mem_filter, List.mem_map] at hc
  obtain ⟨⟨c0, hc0, rfl⟩, _⟩ := hc
  exact ⟨c0, hc0, rfl⟩

/-- the month table of the code (read from the source): jul = offset 0 … jan = offset 6 -/
theorem months_table : BSE.Gen.Manip.months = ["jul", "jun", "may", "apr", "mar", "feb", "jan"] := by decide

example : (0 : Rat) < 1/10 * powR ((1/10) / (3/10)) 2 ∧ (1/10 : Rat) * powR ((1/10) / (3/10)) 2 < 1/10 :=
  diffuse_strictly_outside (1/10) (3/10) (by decide +kernel) (by decide +kernel) 1
example : target 3 2 = [3, 2] ∧ target 1 5 = [1, 0] := by decide

end BSE.Props.C12
