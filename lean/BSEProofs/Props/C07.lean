import BSEModel.ManipOps
import BSEModel.Canon
import BSEGen.Manip
import BSEGen.Api
import Mathlib.LinearAlgebra.Span.Basic
import Mathlib.Algebra.Order.Field.Rat
import Mathlib.Algebra.Module.Pi
import Mathlib.Tactic.FieldSimp
import Mathlib.Tactic.Ring
import Mathlib.Tactic.Abel
import Mathlib.Data.Fin.VecNotation
import Mathlib.Tactic.FinCases
/-! # C07 — primitive-level operations do exactly what they are defined to do -/
namespace BSE.Props.C07
open BSE

variable {ν : Type}

/-! ## uncontract_segmented -/

/-- the literal the code writes for every new coefficient is the number one (read from the source) -/
theorem usegOne_is_one : numVal BSE.Gen.Manip.usegOne = 1 := by decide +kernel

theorem funcs_replicate (val : ν → Rat) (sh : Shell ν) (e one : ν) (f : Func) :
    f ∈ ({ sh with exps := [e], coefs := List.replicate sh.am.length [one] } : Shell ν).funcs val
      ↔ ∃ l ∈ sh.am, f = (l, colFn val [e] [one]) := by
  unfold Shell.funcs
  simp only
  split
  · rename_i h
    constructor
    · intro hf
      obtain ⟨i, hi, rfl⟩ := List.mem_iff_getElem.1 hf
      simp only [List.length_zipWith, List.length_replicate, Nat.min_self] at hi
      simp only [List.getElem_zipWith, List.getElem_replicate]
      exact ⟨sh.am[i], List.getElem_mem _, rfl⟩
    · rintro ⟨l, hl, rfl⟩
      obtain ⟨i, hi, rfl⟩ := List.mem_iff_getElem.1 hl
      refine List.mem_iff_getElem.2 ⟨i, by simpa using hi, ?_⟩
      simp
  · rename_i h
    have h1 : sh.am.length ≤ 1 := by omega
    constructor
    · intro hf
      simp only [List.map_replicate, List.mem_replicate] at hf
      obtain ⟨hne, rfl⟩ := hf
      cases ha : sh.am with
      | nil => simp [ha] at hne
      | cons a as => exact ⟨a, by simp, by simp⟩
    · rintro ⟨l, hl, rfl⟩
      cases ha : sh.am with
      | nil => simp [ha] at hl
      | cons a as =>
        cases as with
        | nil => simp [ha] at hl ⊢; exact hl
        | cons b bs => simp [ha] at h1

/-- **uncontract_segmented returns one unit-coefficient function for every (momentum, exponent)
primitive of the input and nothing else** (set level; the coefficient literal is `one`) -/
theorem uncontractSegmented_spec (val : ν → Rat) (one : ν) (shells : List (Shell ν)) (f : Func) :
    funcSet val (uncontractSegmented one shells) f
      ↔ ∃ sh ∈ shells, ∃ e ∈ sh.exps, ∃ l ∈ sh.am, f = (l, colFn val [e] [one]) := by
  unfold funcSet uncontractSegmented
  constructor
  · rintro ⟨s, hs, hf⟩
    obtain ⟨sh, hsh, hs'⟩ := List.mem_flatMap.1 hs
    obtain ⟨e, he, rfl⟩ := List.mem_map.1 hs'
    exact ⟨sh, hsh, e, he, (funcs_replicate val sh e one f).1 hf⟩
  · rintro ⟨sh, hsh, e, he, hl⟩
    exact ⟨_, List.mem_flatMap.2 ⟨sh, hsh, List.mem_map.2 ⟨e, he, rfl⟩⟩, (funcs_replicate val sh e one f).2 hl⟩

/-- the unit function of a primitive: `1` at the exponent's value, `0` elsewhere -/
theorem unit_colFn (val : ν → Rat) (e one : ν) (h1 : val one = 1) (x : Rat) :
    colFn val [e] [one] x = if val e = x then 1 else 0 := by
  simp [colFn, h1]

/-- every new shell holds exactly one primitive, and there is one per input primitive -/
theorem uncontractSegmented_shape (one : ν) (shells : List (Shell ν)) :
    (∀ s ∈ uncontractSegmented one shells, s.exps.length = 1)
      ∧ (uncontractSegmented one shells).length = (shells.map (·.exps.length)).sum := by
  unfold uncontractSegmented
  constructor
  · intro s hs
    obtain ⟨sh, _, hs'⟩ := List.mem_flatMap.1 hs
    obtain ⟨e, _, rfl⟩ := List.mem_map.1 hs'
    rfl
  · simp [List.length_flatMap]

/-! ## remove_free_primitives -/

/-- **the column filter of remove_free_primitives keeps exactly the functions that contract two or
more primitives** (single-momentum shells; a column with no non-zero entry is kept too — such a
column does not exist in valid data) -/
theorem removeFreeCore_single (val : ν → Rat) (shells : List (Shell ν)) (hsingle : ∀ sh ∈ shells, sh.am.length = 1) :
    removeFreeCore val shells = shells.filterMap fun sh =>
      let kept := sh.coefs.filter (fun c => !isSingleColumn val c)
      if kept.isEmpty then none else some { sh with coefs := kept } := by
  unfold removeFreeCore
  apply List.filterMap_congr
  intro sh hsh
  have h1 : ¬ (sh.am.length > 1) := by have := hsingle sh hsh; omega
  simp only [h1, if_false]

theorem removeFree_spec (val : ν → Rat) (shells : List (Shell ν))
    (hsingle : ∀ sh ∈ shells, sh.am.length = 1) (f : Func) :
    funcSet val (removeFreeCore val shells) f
      ↔ ∃ sh ∈ shells, ∃ c ∈ sh.coefs, isSingleColumn val c = false ∧ f = (sh.am.headD 0, colFn val sh.exps c) := by
  rw [removeFreeCore_single val shells hsingle]
  unfold funcSet
  constructor
  · rintro ⟨s, hs, hf⟩
    obtain ⟨sh, hsh, hs'⟩ := List.mem_filterMap.1 hs
    have ham := hsingle sh hsh
    simp only at hs'
    by_cases hk : (sh.coefs.filter (fun c => !isSingleColumn val c)).isEmpty = true
    · simp [hk] at hs'
    · simp only [hk, if_false, Option.some.injEq, Bool.false_eq_true] at hs'
      subst hs'
      have h1 : ¬ (sh.am.length > 1) := by omega
      simp only [Shell.funcs, h1, if_false, List.mem_map, List.mem_filter] at hf
      obtain ⟨c, ⟨hc, hns⟩, rfl⟩ := hf
      exact ⟨sh, hsh, c, hc, by simpa using hns, rfl⟩
  · rintro ⟨sh, hsh, c, hc, hns, rfl⟩
    have ham := hsingle sh hsh
    have hk : c ∈ sh.coefs.filter (fun c => !isSingleColumn val c) := List.mem_filter.2 ⟨hc, by simp [hns]⟩
    have hne : (sh.coefs.filter (fun c => !isSingleColumn val c)).isEmpty = false := by
      cases hfl : sh.coefs.filter (fun c => !isSingleColumn val c) with
      | nil => rw [hfl] at hk; cases hk
      | cons _ _ => rfl
    refine ⟨{ sh with coefs := sh.coefs.filter (fun c => !isSingleColumn val c) }, ?_, ?_⟩
    · exact List.mem_filterMap.2 ⟨sh, hsh, by simp [hne]⟩
    · have h1 : ¬ (sh.am.length > 1) := by omega
      simp only [Shell.funcs, h1, if_false, List.mem_map]
      exact ⟨c, hk, rfl⟩

theorem zipWith_map_map {α β γ δ : Type} (f : β → γ → δ) (g : α → β) (h : α → γ) (l : List α) :
    List.zipWith f (l.map g) (l.map h) = l.map (fun x => f (g x) (h x)) := by
  induction l with
  | nil => rfl
  | cons a as ih => simp [ih]

/-- **fused shells** (fix ed2ae683: before it the momentum list was left untouched): what `remove_free_primitives` keeps of a fused
sp/spd shell is exactly its members whose column contracts two or more primitives — each still under its own angular momentum —, the
shell keeps one column per momentum (so it stays well formed), its exponents are untouched, and nothing is kept when no member is contracted -/
theorem removeFree_fused (val : ν → Rat) (sh : Shell ν) (hfused : sh.am.length > 1) (s : Shell ν)
    (hs : s ∈ removeFreeCore val [sh]) :
    s.funcs val = ((sh.am.zip sh.coefs).filter (fun p => !isSingleColumn val p.2)).map (fun p => (p.1, colFn val sh.exps p.2))
    ∧ s.am.length = s.coefs.length ∧ s.exps = sh.exps ∧ s.am ≠ [] := by
  unfold removeFreeCore at hs
  simp only [List.filterMap_cons, List.filterMap_nil, hfused, if_true] at hs
  by_cases hk : ((sh.am.zip sh.coefs).filter (fun p => !isSingleColumn val p.2)).isEmpty = true
  · simp [hk] at hs
  · simp only [hk, Bool.false_eq_true, if_false, List.mem_singleton] at hs
    subst hs
    refine ⟨?_, by simp, rfl, ?_⟩
    · generalize hkept : (sh.am.zip sh.coefs).filter (fun p => !isSingleColumn val p.2) = kept at hk
      unfold Shell.funcs
      by_cases hl : (kept.map (·.1)).length > 1
      · simp only [hl, if_true]
        exact zipWith_map_map _ _ _ kept
      · simp only [hl, if_false]
        -- one member left: a single-momentum shell
        match kept, hk, hl with
        | [p], _, _ => simp
        | [], hk, _ => simp at hk
        | _ :: _ :: _, _, hl => simp at hl
    · intro h
      have : ((sh.am.zip sh.coefs).filter (fun p => !isSingleColumn val p.2)) = [] := by
        simpa using h
      simp [this] at hk

/-! ## optimize_general: one zeroing step keeps the span (abstract linear algebra, over ℚ) -/

open Submodule in
/-- one step of optimize_general: zero row `r` in every column except `s` -/
def zeroRow {ι κ : Type} [DecidableEq ι] [DecidableEq κ] (cols : ι → (κ → ℚ)) (r : κ) (s : ι) : ι → (κ → ℚ) :=
  fun j => if j = s then cols j else Function.update (cols j) r 0

theorem zeroRow_eq {ι κ : Type} [DecidableEq ι] [DecidableEq κ] (cols : ι → (κ → ℚ)) (r : κ) (s : ι)
    (hs : ∀ i, i ≠ r → cols s i = 0) (hr : cols s r ≠ 0) (j : ι) (hj : j ≠ s) :
    zeroRow cols r s j = cols j - (cols j r / cols s r) • cols s := by
  funext i
  simp only [zeroRow, hj, if_false, Pi.sub_apply, Pi.smul_apply, smul_eq_mul]
  by_cases hi : i = r
  · subst hi
    simp only [Function.update_self]
    field_simp
    ring
  · rw [Function.update_of_ne hi, hs i hi]; ring

open Submodule in
/-- **zeroing the row of a free primitive in every other column does not change the linear span
of the columns** — the step `optimize_general` repeats for every free primitive -/
theorem span_zeroRow {ι κ : Type} [DecidableEq ι] [DecidableEq κ] (cols : ι → (κ → ℚ)) (r : κ) (s : ι)
    (hs : ∀ i, i ≠ r → cols s i = 0) (hr : cols s r ≠ 0) :
    span ℚ (Set.range (zeroRow cols r s)) = span ℚ (Set.range cols) := by
  have hss : zeroRow cols r s s = cols s := by simp [zeroRow]
  apply le_antisymm
  · rw [span_le]
    rintro _ ⟨j, rfl⟩
    by_cases hj : j = s
    · subst hj; rw [hss]; exact subset_span ⟨j, rfl⟩
    · rw [zeroRow_eq cols r s hs hr j hj]
      exact sub_mem (subset_span ⟨j, rfl⟩) (smul_mem _ _ (subset_span ⟨s, rfl⟩))
  · rw [span_le]
    rintro _ ⟨j, rfl⟩
    by_cases hj : j = s
    · subst hj; rw [← hss]; exact subset_span ⟨j, rfl⟩
    · have h : cols j = zeroRow cols r s j + (cols j r / cols s r) • zeroRow cols r s s := by
        rw [zeroRow_eq cols r s hs hr j hj, hss]; abel
      rw [h]
      exact add_mem (subset_span ⟨j, rfl⟩) (smul_mem _ _ (subset_span ⟨s, rfl⟩))

/-- zeroing never creates a non-zero entry: the non-zero count cannot grow -/
theorem zeroRow_support {ι κ : Type} [DecidableEq ι] [DecidableEq κ] (cols : ι → (κ → ℚ)) (r : κ) (s : ι) (j : ι) (i : κ)
    (h : zeroRow cols r s j i ≠ 0) : cols j i ≠ 0 := by
  unfold zeroRow at h
  split at h
  · exact h
  · by_cases hi : i = r
    · subst hi; simp at h
    · rwa [Function.update_of_ne hi] at h

/-! ### all free primitives at once

`optimize_general` zeroes, in one sweep, row `r` of every column other than `s` for **every** pair `(r, s)` where
column `s` is a single-primitive column with its only non-zero entry in row `r` (the code refuses the shell when two
such columns sit on the same row).  `zeroAll` is that sweep; it keeps the span, by induction over the pairs with
`span_zeroRow` as the step. -/

/-- the sweep: entry `(j, i)` is zeroed when some pair `(i, s)` with `s ≠ j` exists -/
def zeroAll {ι κ : Type} [DecidableEq ι] [DecidableEq κ] (cols : ι → (κ → ℚ)) (pairs : List (κ × ι)) : ι → (κ → ℚ) :=
  fun j i => if ∃ p ∈ pairs, p.1 = i ∧ p.2 ≠ j then 0 else cols j i

theorem zeroAll_nil {ι κ : Type} [DecidableEq ι] [DecidableEq κ] (cols : ι → (κ → ℚ)) : zeroAll cols [] = cols := by
  funext j i; simp [zeroAll]

theorem zeroAll_apply {ι κ : Type} [DecidableEq ι] [DecidableEq κ] (cols : ι → (κ → ℚ)) (ps : List (κ × ι)) (j : ι) (i : κ) :
    zeroAll cols ps j i = if ∃ p ∈ ps, p.1 = i ∧ p.2 ≠ j then 0 else cols j i := rfl

theorem zeroAll_cons {ι κ : Type} [DecidableEq ι] [DecidableEq κ] (cols : ι → (κ → ℚ)) (p : κ × ι) (ps : List (κ × ι)) :
    zeroAll cols (p :: ps) = zeroRow (zeroAll cols ps) p.1 p.2 := by
  funext j i
  simp only [zeroAll_apply, zeroRow, List.mem_cons, exists_eq_or_imp]
  by_cases hB : ∃ a ∈ ps, a.1 = i ∧ a.2 ≠ j
  · -- already zeroed by an earlier pair
    rw [if_pos (Or.inr hB)]
    by_cases hj : j = p.2
    · rw [if_pos hj, zeroAll_apply, if_pos hB]
    · rw [if_neg hj]
      by_cases hi : i = p.1
      · subst hi; simp
      · rw [Function.update_of_ne hi, zeroAll_apply, if_pos hB]
  · by_cases hj : j = p.2
    · have hA : ¬ (p.1 = i ∧ p.2 ≠ j) := fun h => h.2 hj.symm
      rw [if_neg (by rintro (h | h); exact hA h; exact hB h), if_pos hj, zeroAll_apply, if_neg hB]
    · rw [if_neg hj]
      by_cases hi : i = p.1
      · subst hi
        rw [if_pos (Or.inl ⟨rfl, fun h => hj h.symm⟩)]
        simp
      · have hA : ¬ (p.1 = i ∧ p.2 ≠ j) := fun h => hi h.1.symm
        rw [if_neg (by rintro (h | h); exact hA h; exact hB h), Function.update_of_ne hi, zeroAll_apply, if_neg hB]

open Submodule in
/-- **the whole sweep of optimize_general keeps the linear span of the contractions**, for any number of free
primitives: every pair names a column whose only non-zero entry is in the pair's row, rows pairwise different -/
theorem span_zeroAll {ι κ : Type} [DecidableEq ι] [DecidableEq κ] (cols : ι → (κ → ℚ)) (pairs : List (κ × ι))
    (hsingle : ∀ p ∈ pairs, (∀ i, i ≠ p.1 → cols p.2 i = 0) ∧ cols p.2 p.1 ≠ 0)
    (hrows : (pairs.map (·.1)).Nodup) :
    span ℚ (Set.range (zeroAll cols pairs)) = span ℚ (Set.range cols) := by
  induction pairs with
  | nil => rw [zeroAll_nil]
  | cons p ps ih =>
    have hrows' : (ps.map (·.1)).Nodup := (List.nodup_cons.1 (by simpa using hrows)).2
    have hnot : p.1 ∉ ps.map (·.1) := (List.nodup_cons.1 (by simpa using hrows)).1
    have ih' := ih (fun q hq => hsingle q (List.mem_cons_of_mem _ hq)) hrows'
    obtain ⟨hz, hnz⟩ := hsingle p (List.mem_cons_self ..)
    rw [zeroAll_cons, span_zeroRow (zeroAll cols ps) p.1 p.2 ?_ ?_, ih']
    · intro i hi
      simp only [zeroAll]
      split
      · rfl
      · exact hz i hi
    · simp only [zeroAll]
      rw [if_neg]
      · exact hnz
      · rintro ⟨q, hq, hq1, _⟩
        exact hnot (List.mem_map.2 ⟨q, hq, hq1⟩)

/-- the sweep never creates a non-zero entry, and never touches a single-primitive column itself -/
theorem zeroAll_support {ι κ : Type} [DecidableEq ι] [DecidableEq κ] (cols : ι → (κ → ℚ)) (pairs : List (κ × ι)) (j : ι) (i : κ)
    (h : zeroAll cols pairs j i ≠ 0) : cols j i ≠ 0 := by
  unfold zeroAll at h
  split at h
  · exact absurd rfl h
  · exact h

/-- after the sweep a free primitive's row is non-zero only in its own column -/
theorem zeroAll_row_exclusive {ι κ : Type} [DecidableEq ι] [DecidableEq κ] (cols : ι → (κ → ℚ)) (pairs : List (κ × ι))
    (p : κ × ι) (hp : p ∈ pairs) (j : ι) (hj : j ≠ p.2) : zeroAll cols pairs j p.1 = 0 := by
  unfold zeroAll
  rw [if_pos ⟨p, hp, rfl, fun h => hj h.symm⟩]

/-- non-vacuity: two free primitives in a 3×3 block -/
example : let cols : Fin 3 → (Fin 3 → ℚ) := ![![1, 2, 3], ![0, 5, 0], ![0, 0, 7]]
    zeroAll cols [(1, 1), (2, 2)] 0 = ![1, 0, 0] := by
  intro cols
  funext i
  fin_cases i <;> simp [zeroAll, cols]

/-! ### from the abstract sweep to the list-level `optimizeShell` -/

/-- a coefficient column as a vector indexed by the primitive number (zero beyond its end) -/
def vecOf (val : ν → ℚ) (c : List ν) : ℕ → ℚ := fun i => ((c[i]?).map val).getD 0

/-- the columns of a shell as a family indexed by the column number (the zero vector beyond the last column) -/
def famOf (val : ν → ℚ) (coefs : List (List ν)) : ℕ → (ℕ → ℚ) := fun j => vecOf val ((coefs[j]?).getD [])

/-- the set of column vectors of a shell -/
def colVecs (val : ν → ℚ) (coefs : List (List ν)) : Set (ℕ → ℚ) := {v | ∃ c ∈ coefs, v = vecOf val c}

theorem vecOf_nil (val : ν → ℚ) : vecOf val [] = 0 := by
  funext i; simp [vecOf]

open Submodule in
theorem span_famOf (val : ν → ℚ) (coefs : List (List ν)) :
    span ℚ (Set.range (famOf val coefs)) = span ℚ (colVecs val coefs) := by
  apply le_antisymm
  · rw [span_le]
    rintro _ ⟨j, rfl⟩
    unfold famOf
    cases hj : coefs[j]? with
    | none => simp only [Option.getD_none, vecOf_nil]; exact zero_mem _
    | some c => exact subset_span ⟨c, List.mem_of_getElem? hj, rfl⟩
  · rw [span_le]
    rintro _ ⟨c, hc, rfl⟩
    obtain ⟨j, hj, rfl⟩ := List.mem_iff_getElem.1 hc
    exact subset_span ⟨j, by simp [famOf, List.getElem?_eq_getElem hj]⟩

/-- the matrix `optimizeShell` builds before it drops the emptied columns -/
def zeroedOf (val : ν → ℚ) (zero : ν) (coefs : List (List ν)) (pairs : List (ℕ × ℕ)) : List (List ν) :=
  coefs.zipIdx.map fun pc =>
    pc.1.zipIdx.map fun ce =>
      if val ce.1 != 0 ∧ pairs.any (fun p => p.1 = ce.2 ∧ p.2 ≠ pc.2) then zero else ce.1

theorem famOf_zeroedOf (val : ν → ℚ) (zero : ν) (hz : val zero = 0) (coefs : List (List ν)) (pairs : List (ℕ × ℕ)) :
    famOf val (zeroedOf val zero coefs pairs) = zeroAll (famOf val coefs) pairs := by
  funext j i
  rw [zeroAll_apply]
  unfold famOf vecOf zeroedOf
  rw [List.getElem?_map, List.getElem?_zipIdx]
  cases hj : coefs[j]? with
  | none => simp
  | some col =>
    simp only [Option.map_some, Option.getD_some, Nat.zero_add]
    rw [List.getElem?_map, List.getElem?_zipIdx]
    cases hi : col[i]? with
    | none => simp
    | some x =>
      simp only [Option.map_some, Option.getD_some, Nat.zero_add]
      by_cases hB : ∃ p ∈ pairs, p.1 = i ∧ p.2 ≠ j
      · rw [if_pos hB]
        have hany : pairs.any (fun p => decide (p.1 = i ∧ ¬p.2 = j)) = true := by
          obtain ⟨p, hp, h1, h2⟩ := hB
          exact List.any_eq_true.2 ⟨p, hp, by simp [h1, h2]⟩
        by_cases hx : val x = 0
        · have : ¬ ((val x != 0) = true ∧ pairs.any (fun p => decide (p.1 = i ∧ ¬p.2 = j)) = true) := by
            rintro ⟨h, _⟩; simp [hx] at h
          rw [if_neg this, hx]
        · rw [if_pos ⟨by simpa using hx, hany⟩, hz]
      · rw [if_neg hB]
        have hany : ¬ (pairs.any (fun p => decide (p.1 = i ∧ ¬p.2 = j)) = true) := by
          intro h
          obtain ⟨p, hp, hd⟩ := List.any_eq_true.1 h
          exact hB ⟨p, hp, by simpa using hd⟩
        rw [if_neg (fun h => hany h.2)]

/-- in a column with exactly one non-zero entry, two non-zero positions coincide -/
theorem single_nonzero_unique (val : ν → ℚ) (col : List ν) (h1 : (col.filter (fun c => val c != 0)).length = 1) :
    ∀ (r i : ℕ) (x y : ν), col[r]? = some x → col[i]? = some y → val x ≠ 0 → val y ≠ 0 → r = i := by
  induction col with
  | nil => intro r i x y hx; simp at hx
  | cons a as ih =>
    intro r i x y hx hy hxn hyn
    by_cases ha : val a = 0
    · -- the head is zero: both positions are in the tail
      have hf : (as.filter (fun c => val c != 0)).length = 1 := by
        simpa [List.filter_cons, ha] using h1
      cases r with
      | zero => simp at hx; subst hx; exact absurd ha hxn
      | succ r' =>
        cases i with
        | zero => simp at hy; subst hy; exact absurd ha hyn
        | succ i' =>
          have := ih hf r' i' x y (by simpa using hx) (by simpa using hy) hxn hyn
          omega
    · -- the head is the non-zero entry: the tail has none
      have hf : as.filter (fun c => val c != 0) = [] := by
        have : (a :: as.filter (fun c => val c != 0)).length = 1 := by simpa [List.filter_cons, ha] using h1
        exact List.eq_nil_of_length_eq_zero (by simpa using this)
      have htail : ∀ (k : ℕ) (z : ν), as[k]? = some z → val z = 0 := by
        intro k z hk
        apply Classical.byContradiction
        intro hz
        have : z ∈ as.filter (fun c => val c != 0) := List.mem_filter.2 ⟨List.mem_of_getElem? hk, by simpa using hz⟩
        rw [hf] at this; cases this
      cases r with
      | zero =>
        cases i with
        | zero => rfl
        | succ i' => exact absurd (htail i' y (by simpa using hy)) hyn
      | succ r' => exact absurd (htail r' x (by simpa using hx)) hxn

theorem mem_nonzeroRows (val : ν → ℚ) (col : List ν) (r : ℕ) (h : r ∈ nonzeroRows val col) :
    ∃ x, col[r]? = some x ∧ val x ≠ 0 := by
  unfold nonzeroRows at h
  obtain ⟨p, hp, rfl⟩ := List.mem_map.1 h
  obtain ⟨hm, hnz⟩ := List.mem_filter.1 hp
  have := List.mem_zipIdx_iff_getElem?.1 hm
  exact ⟨p.1, by simpa using this, by simpa using hnz⟩

/-- every pair `optimize_general` collects names a column whose only non-zero entry sits in the pair's row -/
theorem rowColPairs_single (val : ν → ℚ) (coefs : List (List ν)) :
    ∀ p ∈ rowColPairs val coefs, (∀ i, i ≠ p.1 → famOf val coefs p.2 i = 0) ∧ famOf val coefs p.2 p.1 ≠ 0 := by
  intro p hp
  unfold rowColPairs at hp
  obtain ⟨cs, hcs, hp'⟩ := List.mem_flatMap.1 hp
  obtain ⟨hm, hsingle⟩ := List.mem_filter.1 hcs
  obtain ⟨r, hr, rfl⟩ := List.mem_map.1 hp'
  have hcol : coefs[cs.2]? = some cs.1 := by
    have := List.mem_zipIdx_iff_getElem?.1 hm
    simpa using this
  obtain ⟨x, hx, hxn⟩ := mem_nonzeroRows val cs.1 r hr
  have h1 : (cs.1.filter (fun c => val c != 0)).length = 1 := by
    simpa [isSingleColumn] using hsingle
  refine ⟨?_, ?_⟩
  · intro i hi
    simp only [famOf, vecOf, hcol, Option.getD_some]
    cases hy : cs.1[i]? with
    | none => simp
    | some y =>
      simp only [Option.map_some, Option.getD_some]
      apply Classical.byContradiction
      intro hyn
      exact hi (single_nonzero_unique val cs.1 h1 r i x y hx hy hxn hyn).symm
  · simp only [famOf, vecOf, hcol, Option.getD_some, hx, Option.map_some]
    exact hxn

open Submodule in
/-- dropping the columns that are zero everywhere does not change the span -/
theorem span_filter_nonzero (val : ν → ℚ) (Z : List (List ν)) :
    span ℚ (colVecs val (Z.filter fun col => col.any (fun c => val c != 0))) = span ℚ (colVecs val Z) := by
  apply le_antisymm
  · apply span_mono
    rintro _ ⟨c, hc, rfl⟩
    exact ⟨c, (List.mem_filter.1 hc).1, rfl⟩
  · rw [span_le]
    rintro _ ⟨c, hc, rfl⟩
    by_cases hnz : c.any (fun x => val x != 0) = true
    · exact subset_span ⟨c, List.mem_filter.2 ⟨hc, hnz⟩, rfl⟩
    · have hzero : vecOf val c = 0 := by
        funext i
        simp only [vecOf, Pi.zero_apply]
        cases hi : c[i]? with
        | none => rfl
        | some x =>
          simp only [Option.map_some, Option.getD_some]
          apply Classical.byContradiction
          intro hx
          exact hnz (List.any_eq_true.2 ⟨x, List.mem_of_getElem? hi, by simpa using hx⟩)
      rw [hzero]; exact zero_mem _

open Submodule in
/-- **`optimize_general` on one shell keeps the linear span of its contractions** — the list-level function of the
model (the one the driver runs against `manip.optimize_general`), for every shell it accepts: the sweep over all
free primitives and the dropping of emptied contractions included -/
theorem optimizeShell_span (val : ν → ℚ) (zero : ν) (hz : val zero = 0) (sh sh' : Shell ν)
    (h : optimizeShell val zero sh = .ok sh') :
    span ℚ (colVecs val sh'.coefs) = span ℚ (colVecs val sh.coefs) := by
  unfold optimizeShell at h
  split at h
  · cases h; rfl
  · simp only at h
    split at h
    · cases h
    · rename_i hnd
      cases h
      have hnd' : ((rowColPairs val sh.coefs).map (·.1)).Nodup := by
        apply Classical.byContradiction
        intro hc; exact hnd hc
      show span ℚ (colVecs val ((zeroedOf val zero sh.coefs (rowColPairs val sh.coefs)).filter fun col => col.any (fun c => val c != 0))) = _
      rw [span_filter_nonzero, ← span_famOf, famOf_zeroedOf val zero hz,
        span_zeroAll (famOf val sh.coefs) (rowColPairs val sh.coefs) (rowColPairs_single val sh.coefs) hnd', span_famOf]

/-! ### never more non-zero coefficients -/

/-- number of non-zero coefficients of a contraction matrix -/
def nnz (val : ν → ℚ) (coefs : List (List ν)) : ℕ := (coefs.map fun col => (col.filter fun c => val c != 0).length).sum

theorem nnz_col_le (val : ν → ℚ) (zero : ν) (hz : val zero = 0) (P : ν × ℕ → Prop) [DecidablePred P] (col : List ν) :
    ((col.zipIdx.map fun ce => if P ce then zero else ce.1).filter fun c => val c != 0).length
      ≤ (col.filter fun c => val c != 0).length := by
  have key : ∀ (l : List (ν × ℕ)),
      ((l.map fun ce => if P ce then zero else ce.1).filter fun c => val c != 0).length
        ≤ ((l.map (·.1)).filter fun c => val c != 0).length := by
    intro l
    induction l with
    | nil => simp
    | cons a as ih =>
      simp only [List.map_cons, List.filter_cons]
      by_cases hp : P a
      · simp only [hp, if_true, hz, bne_self_eq_false, Bool.false_eq_true, if_false]
        split
        · simp only [List.length_cons]; omega
        · exact ih
      · simp only [hp, if_false]
        split
        · simp only [List.length_cons]; omega
        · exact ih
  have := key col.zipIdx
  have hfst : col.zipIdx.map (·.1) = col := by simp [List.zipIdx_map_fst]
  rwa [hfst] at this

theorem sum_filter_le (l : List (List ν)) (p : List ν → Bool) (f : List ν → ℕ) :
    ((l.filter p).map f).sum ≤ (l.map f).sum := by
  induction l with
  | nil => simp
  | cons a as ih =>
    simp only [List.filter_cons, List.map_cons, List.sum_cons]
    split
    · simp only [List.map_cons, List.sum_cons]; omega
    · omega

/-- **`optimize_general` never has more non-zero coefficients than the general-contracted shell it starts from**: entries are
only ever replaced by the zero literal, and contractions are only ever dropped -/
theorem optimizeShell_nnz_le (val : ν → ℚ) (zero : ν) (hz : val zero = 0) (sh sh' : Shell ν)
    (h : optimizeShell val zero sh = .ok sh') : nnz val sh'.coefs ≤ nnz val sh.coefs := by
  unfold optimizeShell at h
  split at h
  · cases h; exact Nat.le_refl _
  · simp only at h
    split at h
    · cases h
    · cases h
      unfold nnz
      refine Nat.le_trans (sum_filter_le _ _ _) ?_
      simp only [List.map_map]
      have : ∀ (l : List (List ν × ℕ)),
          (l.map ((fun col => (col.filter fun c => val c != 0).length) ∘ fun pc =>
              pc.1.zipIdx.map fun ce =>
                if val ce.1 != 0 ∧ (rowColPairs val sh.coefs).any (fun p => p.1 = ce.2 ∧ p.2 ≠ pc.2) then zero else ce.1)).sum
            ≤ ((l.map (·.1)).map fun col => (col.filter fun c => val c != 0).length).sum := by
        intro l
        induction l with
        | nil => simp
        | cons a as ih =>
          simp only [List.map_cons, List.sum_cons, Function.comp]
          have h1 := nnz_col_le val zero hz
            (fun ce => val ce.1 != 0 ∧ (rowColPairs val sh.coefs).any (fun p => p.1 = ce.2 ∧ p.2 ≠ a.2)) a.1
          have h2 := ih
          omega
      have h3 := this sh.coefs.zipIdx
      have hfst : sh.coefs.zipIdx.map (·.1) = sh.coefs := by simp [List.zipIdx_map_fst]
      rwa [hfst] at h3

/-- the literal written by the zeroing step is a zero, and `optimize_general` first makes the
basis general with `skip_spdf = True` (both read from the source) -/
theorem ogZero_is_zero : numVal BSE.Gen.Manip.ogZero = 0 := by decide +kernel
theorem optimizeGeneral_calls : BSE.Gen.Manip.optimizeGeneralCalls = [⟨.makeGeneral true, false⟩] := by decide

/-- in `get_basis`, remove_free_primitives runs before optimize_general, which runs before the
uncontraction flags; each requests the final prune, and the duplicate one-primitive shells that
`uncontract_segmented` leaves behind are pruned at once -/
theorem getBasis_primitive_blocks :
    (BSE.Gen.Api.optionBlocks.take 3).map (fun b => (b.cond, b.steps.map (·.op), b.setsPrune, b.isElif))
      = [("remove_free_primitives", [.removeFree], true, false), ("optimize_general", [.optimizeGeneral], true, false),
         ("uncontract_segmented", [.uncontractSegmented, .pruneBasis], true, false)] := by decide

def demo : List (Shell String) :=
  [{ am := [0], ftype := "gto", region := "", exps := ["3.0", "2.0", "1.0"],
     coefs := [["0.5", "0.5", "0.1"], ["0.0", "0.0", "1.0"]] }]

example : (∀ sh ∈ demo, sh.am.length = 1) ∧ (removeFreeCore numVal demo).map (·.coefs.length) = [1]
    ∧ (uncontractSegmented "1.0" demo).length = 3 := by decide +kernel

end BSE.Props.C07
