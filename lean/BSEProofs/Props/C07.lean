import BSEModel.ManipOps
import BSEModel.Canon
import BSEGen.Manip
import BSEGen.Api
import Mathlib.LinearAlgebra.Span.Basic
import Mathlib.Algebra.Order.Field.Rat
import Mathlib.Algebra.Module.Pi
import Mathlib.Tactic.FieldSimp
import Mathlib.Tactic.Ring
import Mathlib.Tactic.Abel
import Mathlib.Data.Fin.VecNotation
import Mathlib.Tactic.FinCases
/-! # C07 — primitive-level operations do exactly what they are defined to do -/
namespace BSE.Props.C07
open BSE

variable {ν : Type}

/-! ## uncontract_segmented -/

/-- the literal the code writes for every new coefficient is the number one (read from the source) -/
theorem usegOne_is_one : numVal BSE.Gen.Manip.usegOne = 1 := by decide +kernel

theorem funcs_replicate (val : ν → Rat) (sh : Shell ν) (e one : ν) (f : Func) :
    f ∈ ({ sh with exps := [e], coefs := List.replicate sh.am.length [one] } : Shell ν).funcs val
      ↔ ∃ l ∈ sh.am, f = (l, colFn val [e] [one]) := by
  unfold Shell.funcs
  simp only
  split
  · rename_i h
    constructor
    · intro hf
      obtain ⟨i, hi, rfl⟩ := List.mem_iff_getElem.1 hf
      simp only [List.length_zipWith, List.length_replicate, Nat.min_self] at hi
      simp only [List.getElem_zipWith, List.getElem_replicate]
      exact ⟨sh.am[i], List.getElem_mem _, rfl⟩
    · rintro ⟨l, hl, rfl⟩
      obtain ⟨i, hi, rfl⟩ := List.mem_iff_getElem.1 hl
      refine List.mem_iff_getElem.2 ⟨i, by simpa using hi, ?_⟩
      simp
  · rename_i h
    have h1 : sh.am.length ≤ 1 := by omega
    constructor
    · intro hf
      simp only [List.map_replicate, List.mem_replicate] at hf
      obtain ⟨hne, rfl⟩ := hf
      cases ha : sh.am with
      | nil => simp [ha] at hne
      | cons a as => exact ⟨a, by simp, by simp⟩
    · rintro ⟨l, hl, rfl⟩
      cases ha : sh.am with
      | nil => simp [ha] at hl
      | cons a as =>
        cases as with
        | nil => simp [ha] at hl ⊢; exact hl
        | cons b bs => simp [ha] at h1

/-- **uncontract_segmented returns one unit-coefficient function for every (momentum, exponent)
primitive of the input and nothing else** (set level; the coefficient literal is `one`) -/
theorem uncontractSegmented_spec (val : ν → Rat) (one : ν) (shells : List (Shell ν)) (f : Func) :
    funcSet val (uncontractSegmented one shells) f
      ↔ ∃ sh ∈ shells, ∃ e ∈ sh.exps, ∃ l ∈ sh.am, f = (l, colFn val [e] [one]) := by
  unfold funcSet uncontractSegmented
  constructor
  · rintro ⟨s, hs, hf⟩
    obtain ⟨sh, hsh, hs'⟩ := List.mem_flatMap.1 hs
    obtain ⟨e, he, rfl⟩ := List.mem_map.1 hs'
    exact ⟨sh, hsh, e, he, (funcs_replicate val sh e one f).1 hf⟩
  · rintro ⟨sh, hsh, e, he, hl⟩
    exact ⟨_, List.mem_flatMap.2 ⟨sh, hsh, List.mem_map.2 ⟨e, he, rfl⟩⟩, (funcs_replicate val sh e one f).2 hl⟩

/-- the unit function of a primitive: `1` at the exponent's value, `0` elsewhere -/
theorem unit_colFn (val : ν → Rat) (e one : ν) (h1 : val one = 1) (x : Rat) :
    colFn val [e] [one] x = if val e = x then 1 else 0 := by
  simp [colFn, h1]

/-- every new shell holds exactly one primitive, and there is one per input primitive -/
theorem uncontractSegmented_shape (one : ν) (shells : List (Shell ν)) :
    (∀ s ∈ uncontractSegmented one shells, s.exps.length = 1)
      ∧ (uncontractSegmented one shells).length = (shells.map (·.exps.length)).sum := by
  unfold uncontractSegmented
  constructor
  · intro s hs
    obtain ⟨sh, _, hs'⟩ := List.mem_flatMap.1 hs
    obtain ⟨e, _, rfl⟩ := List.mem_map.1 hs'
    rfl
  · simp [List.length_flatMap]

/-! ## remove_free_primitives -/

/-- **the column filter of remove_free_primitives keeps exactly the functions that contract two or
more primitives** (single-momentum shells; a column with no non-zero entry is kept too — such a
column does not exist in valid data) -/
theorem removeFree_spec (val : ν → Rat) (shells : List (Shell ν))
    (hsingle : ∀ sh ∈ shells, sh.am.length = 1) (f : Func) :
    funcSet val (removeFreeCore val shells) f
      ↔ ∃ sh ∈ shells, ∃ c ∈ sh.coefs, isSingleColumn val c = false ∧ f = (sh.am.headD 0, colFn val sh.exps c) := by
  unfold funcSet removeFreeCore
  constructor
  · rintro ⟨s, hs, hf⟩
    obtain ⟨sh, hsh, hs'⟩ := List.mem_filterMap.1 hs
    have ham := hsingle sh hsh
    simp only at hs'
    by_cases hk : (sh.coefs.filter (fun c => !isSingleColumn val c)).isEmpty = true
    · simp [hk] at hs'
    · simp only [hk, if_false, Option.some.injEq, Bool.false_eq_true] at hs'
      subst hs'
      have h1 : ¬ (sh.am.length > 1) := by omega
      simp only [Shell.funcs, h1, if_false, List.mem_map, List.mem_filter] at hf
      obtain ⟨c, ⟨hc, hns⟩, rfl⟩ := hf
      exact ⟨sh, hsh, c, hc, by simpa using hns, rfl⟩
  · rintro ⟨sh, hsh, c, hc, hns, rfl⟩
    have ham := hsingle sh hsh
    have hk : c ∈ sh.coefs.filter (fun c => !isSingleColumn val c) := List.mem_filter.2 ⟨hc, by simp [hns]⟩
    have hne : (sh.coefs.filter (fun c => !isSingleColumn val c)).isEmpty = false := by
      cases hfl : sh.coefs.filter (fun c => !isSingleColumn val c) with
      | nil => rw [hfl] at hk; cases hk
      | cons _ _ => rfl
    refine ⟨{ sh with coefs := sh.coefs.filter (fun c => !isSingleColumn val c) }, ?_, ?_⟩
    · exact List.mem_filterMap.2 ⟨sh, hsh, by simp [hne]⟩
    · have h1 : ¬ (sh.am.length > 1) := by omega
      simp only [Shell.funcs, h1, if_false, List.mem_map]
      exact ⟨c, hk, rfl⟩

/-! ## optimize_general: one zeroing step keeps the span (abstract linear algebra, over ℚ) -/

open Submodule in
/-- one step of optimize_general: zero row `r` in every column except `s` -/
def zeroRow {n m : ℕ} (cols : Fin m → (Fin n → ℚ)) (r : Fin n) (s : Fin m) : Fin m → (Fin n → ℚ) :=
  fun j => if j = s then cols j else Function.update (cols j) r 0

theorem zeroRow_eq {n m : ℕ} (cols : Fin m → (Fin n → ℚ)) (r : Fin n) (s : Fin m)
    (hs : ∀ i, i ≠ r → cols s i = 0) (hr : cols s r ≠ 0) (j : Fin m) (hj : j ≠ s) :
    zeroRow cols r s j = cols j - (cols j r / cols s r) • cols s := by
  funext i
  simp only [zeroRow, hj, if_false, Pi.sub_apply, Pi.smul_apply, smul_eq_mul]
  by_cases hi : i = r
  · subst hi
    simp only [Function.update_self]
    field_simp
    ring
  · rw [Function.update_of_ne hi, hs i hi]; ring

open Submodule in
/-- **zeroing the row of a free primitive in every other column does not change the linear span
of the columns** — the step `optimize_general` repeats for every free primitive -/
theorem span_zeroRow {n m : ℕ} (cols : Fin m → (Fin n → ℚ)) (r : Fin n) (s : Fin m)
    (hs : ∀ i, i ≠ r → cols s i = 0) (hr : cols s r ≠ 0) :
    span ℚ (Set.range (zeroRow cols r s)) = span ℚ (Set.range cols) := by
  have hss : zeroRow cols r s s = cols s := by simp [zeroRow]
  apply le_antisymm
  · rw [span_le]
    rintro _ ⟨j, rfl⟩
    by_cases hj : j = s
    · subst hj; rw [hss]; exact subset_span ⟨j, rfl⟩
    · rw [zeroRow_eq cols r s hs hr j hj]
      exact sub_mem (subset_span ⟨j, rfl⟩) (smul_mem _ _ (subset_span ⟨s, rfl⟩))
  · rw [span_le]
    rintro _ ⟨j, rfl⟩
    by_cases hj : j = s
    · subst hj; rw [← hss]; exact subset_span ⟨j, rfl⟩
    · have h : cols j = zeroRow cols r s j + (cols j r / cols s r) • zeroRow cols r s s := by
        rw [zeroRow_eq cols r s hs hr j hj, hss]; abel
      rw [h]
      exact add_mem (subset_span ⟨j, rfl⟩) (smul_mem _ _ (subset_span ⟨s, rfl⟩))

/-- zeroing never creates a non-zero entry: the non-zero count cannot grow -/
theorem zeroRow_support {n m : ℕ} (cols : Fin m → (Fin n → ℚ)) (r : Fin n) (s : Fin m) (j : Fin m) (i : Fin n)
    (h : zeroRow cols r s j i ≠ 0) : cols j i ≠ 0 := by
  unfold zeroRow at h
  split at h
  · exact h
  · by_cases hi : i = r
    · subst hi; simp at h
    · rwa [Function.update_of_ne hi] at h

/-! ### all free primitives at once

`optimize_general` zeroes, in one sweep, row `r` of every column other than `s` for **every** pair `(r, s)` where
column `s` is a single-primitive column with its only non-zero entry in row `r` (the code refuses the shell when two
such columns sit on the same row).  `zeroAll` is that sweep; it keeps the span, by induction over the pairs with
`span_zeroRow` as the step. -/

/-- the sweep: entry `(j, i)` is zeroed when some pair `(i, s)` with `s ≠ j` exists -/
def zeroAll {n m : ℕ} (cols : Fin m → (Fin n → ℚ)) (pairs : List (Fin n × Fin m)) : Fin m → (Fin n → ℚ) :=
  fun j i => if ∃ p ∈ pairs, p.1 = i ∧ p.2 ≠ j then 0 else cols j i

theorem zeroAll_nil {n m : ℕ} (cols : Fin m → (Fin n → ℚ)) : zeroAll cols [] = cols := by
  funext j i; simp [zeroAll]

theorem zeroAll_cons {n m : ℕ} (cols : Fin m → (Fin n → ℚ)) (p : Fin n × Fin m) (ps : List (Fin n × Fin m)) :
    zeroAll cols (p :: ps) = zeroRow (zeroAll cols ps) p.1 p.2 := by
  funext j i
  simp only [zeroAll, zeroRow, List.mem_cons, exists_eq_or_imp]
  by_cases hj : j = p.2
  · subst hj; simp [zeroAll]
  · by_cases hi : i = p.1
    · subst hi
      have : p.2 ≠ j := fun h => hj h.symm
      simp [hj, this]
    · have : ¬ (p.1 = i) := fun h => hi h.symm
      simp [hj, this, Function.update_of_ne hi, zeroAll]

open Submodule in
/-- **the whole sweep of optimize_general keeps the linear span of the contractions**, for any number of free
primitives: every pair names a column whose only non-zero entry is in the pair's row, rows pairwise different -/
theorem span_zeroAll {n m : ℕ} (cols : Fin m → (Fin n → ℚ)) (pairs : List (Fin n × Fin m))
    (hsingle : ∀ p ∈ pairs, (∀ i, i ≠ p.1 → cols p.2 i = 0) ∧ cols p.2 p.1 ≠ 0)
    (hrows : (pairs.map (·.1)).Nodup) :
    span ℚ (Set.range (zeroAll cols pairs)) = span ℚ (Set.range cols) := by
  induction pairs with
  | nil => rw [zeroAll_nil]
  | cons p ps ih =>
    have hrows' : (ps.map (·.1)).Nodup := (List.nodup_cons.1 (by simpa using hrows)).2
    have hnot : p.1 ∉ ps.map (·.1) := (List.nodup_cons.1 (by simpa using hrows)).1
    have ih' := ih (fun q hq => hsingle q (List.mem_cons_of_mem _ hq)) hrows'
    obtain ⟨hz, hnz⟩ := hsingle p (List.mem_cons_self ..)
    rw [zeroAll_cons, span_zeroRow (zeroAll cols ps) p.1 p.2 ?_ ?_, ih']
    · intro i hi
      simp only [zeroAll]
      split
      · rfl
      · exact hz i hi
    · simp only [zeroAll]
      rw [if_neg]
      · exact hnz
      · rintro ⟨q, hq, hq1, _⟩
        exact hnot (List.mem_map.2 ⟨q, hq, hq1⟩)

/-- the sweep never creates a non-zero entry, and never touches a single-primitive column itself -/
theorem zeroAll_support {n m : ℕ} (cols : Fin m → (Fin n → ℚ)) (pairs : List (Fin n × Fin m)) (j : Fin m) (i : Fin n)
    (h : zeroAll cols pairs j i ≠ 0) : cols j i ≠ 0 := by
  unfold zeroAll at h
  split at h
  · exact absurd rfl h
  · exact h

/-- after the sweep a free primitive's row is non-zero only in its own column -/
theorem zeroAll_row_exclusive {n m : ℕ} (cols : Fin m → (Fin n → ℚ)) (pairs : List (Fin n × Fin m))
    (p : Fin n × Fin m) (hp : p ∈ pairs) (j : Fin m) (hj : j ≠ p.2) : zeroAll cols pairs j p.1 = 0 := by
  unfold zeroAll
  rw [if_pos ⟨p, hp, rfl, fun h => hj h.symm⟩]

/-- non-vacuity: two free primitives in a 3×3 block -/
example : let cols : Fin 3 → (Fin 3 → ℚ) := ![![1, 2, 3], ![0, 5, 0], ![0, 0, 7]]
    zeroAll cols [(1, 1), (2, 2)] 0 = ![1, 0, 0] := by
  intro cols
  funext i
  fin_cases i <;> simp [zeroAll, cols]

/-- the literal written by the zeroing step is a zero, and `optimize_general` first makes the
basis general with `skip_spdf = True` (both read from the source) -/
theorem ogZero_is_zero : numVal BSE.Gen.Manip.ogZero = 0 := by decide +kernel
theorem optimizeGeneral_calls : BSE.Gen.Manip.optimizeGeneralCalls = [⟨.makeGeneral true, false⟩] := by decide

/-- in `get_basis`, remove_free_primitives runs before optimize_general, which runs before the
uncontraction flags; each requests the final prune, and the duplicate one-primitive shells that
`uncontract_segmented` leaves behind are pruned at once -/
theorem getBasis_primitive_blocks :
    (BSE.Gen.Api.optionBlocks.take 3).map (fun b => (b.cond, b.steps.map (·.op), b.setsPrune, b.isElif))
      = [("remove_free_primitives", [.removeFree], true, false), ("optimize_general", [.optimizeGeneral], true, false),
         ("uncontract_segmented", [.uncontractSegmented, .pruneBasis], true, false)] := by decide

def demo : List (Shell String) :=
  [{ am := [0], ftype := "gto", region := "", exps := ["3.0", "2.0", "1.0"],
     coefs := [["0.5", "0.5", "0.1"], ["0.0", "0.0", "1.0"]] }]

example : (∀ sh ∈ demo, sh.am.length = 1) ∧ (removeFreeCore numVal demo).map (·.coefs.length) = [1]
    ∧ (uncontractSegmented "1.0" demo).length = 3 := by decide +kernel

end BSE.Props.C07
