import BSEModel.AutoAux
/-! # C13 — generated auxiliary basis sets depend only on the orbital function space -/
namespace BSE.Props.C13
open BSE.AutoAux BSE.Gen.Manip

/-- **the angular-momentum cap**: never above twice the orbital maximum, and exactly the documented formula -/
theorem lmaxAux_cap (lval linc lmax : Nat) :
    lmaxAuxOf lval linc lmax ≤ 2 * lmax ∧ lmaxAuxOf lval linc lmax ≤ max (2 * lval) (lmax + linc) := by
  unfold lmaxAuxOf; omega

/-- **the element thresholds of AutoAux** (read from the source): lval 0/1/2/3 changes after Z = 2, 20, 56;
linc 1/2 changes after Z = 18 -/
theorem autoaux_thresholds : ∀ Z ∈ List.range 121,
    lvalAux Z = (if Z ≤ 2 then 0 else if Z ≤ 20 then 1 else if Z ≤ 56 then 2 else 3)
      ∧ lincAux Z = (if Z ≤ 18 then 1 else 2) := by decide +kernel

/-- **the element thresholds of AutoABS**: after Z = 2, 18, 54 -/
theorem autoabs_thresholds : ∀ Z ∈ List.range 121,
    lvalAbs Z = (if Z ≤ 2 then 0 else if Z ≤ 18 then 1 else if Z ≤ 54 then 2 else 3) := by decide +kernel

/-- **the published ratios** (Stoychev, Auer, Neese 2017, table 1) are the ones in the source -/
theorem ratios_published :
    flaux = [20, 7, 4, 4, 7/2, 5/2, 2, 2] ∧ blauxBig = [9/5, 2, 11/5, 11/5, 11/5, 23/10, 3, 3] ∧ bSmall = 9/5 := by
  decide +kernel

theorem formulas_as_documented :
    autoauxLmaxExpr = "min(max(2 * lval, lmax + linc), 2 * lmax)"
      ∧ autoabsLmaxExpr = "min(max(2 * lval, lmax + lmaxinc), 2 * lmax)"
      ∧ autoabsDefaults = [("lmaxinc", "1"), ("fsam", "1.5")] := by decide

/-! ### the ladder -/

theorem ladder_head (fuel : Nat) (a b amax : Rat) : (ladder (fuel + 1) a b amax).head? = some a := by
  simp [ladder]

/-- consecutive exponents differ by exactly the ratio `b` -/
theorem ladder_ratio (fuel : Nat) (a b amax : Rat) :
    ∀ i, ∀ x y, (ladder fuel a b amax)[i]? = some x → (ladder fuel a b amax)[i + 1]? = some y → y = x * b := by
  induction fuel generalizing a with
  | zero => intro i x y h; simp [ladder] at h
  | succ k ih =>
    intro i x y hx hy
    unfold ladder at hx hy
    by_cases hc : a ≥ amax
    · simp [hc] at hy
    · simp only [hc, if_false] at hx hy
      cases i with
      | zero =>
        simp only [List.getElem?_cons_zero, Option.some.injEq] at hx
        simp only [List.getElem?_cons_succ] at hy
        subst hx
        cases k with
        | zero => simp [ladder] at hy
        | succ k' => simp [ladder] at hy; exact hy.symm
      | succ i' =>
        simp only [List.getElem?_cons_succ] at hx hy
        exact ih (a * b) i' x y hx hy

/-- every exponent except the last is still below the upper bound (the loop had to go on) -/
theorem ladder_below (fuel : Nat) (a b amax : Rat) :
    ∀ i, ∀ x, (ladder fuel a b amax)[i]? = some x → i + 1 < (ladder fuel a b amax).length → x < amax := by
  induction fuel generalizing a with
  | zero => intro i x h; simp [ladder] at h
  | succ k ih =>
    intro i x hx hl
    unfold ladder at hx hl
    by_cases hc : a ≥ amax
    · simp [hc] at hl
    · simp only [hc, if_false] at hx hl
      cases i with
      | zero =>
        simp only [List.getElem?_cons_zero, Option.some.injEq] at hx
        subst hx
        exact Rat.not_le.1 hc
      | succ i' =>
        simp only [List.getElem?_cons_succ] at hx
        simp only [List.length_cons] at hl
        exact ih (a * b) i' x hx (by omega)

/-- if the ladder ended before the fuel ran out, its last exponent reaches the upper bound -/
theorem ladder_reaches (fuel : Nat) (a b amax : Rat) (h : (ladder fuel a b amax).length < fuel) :
    ∃ x, (ladder fuel a b amax).getLast? = some x ∧ x ≥ amax := by
  induction fuel generalizing a with
  | zero => simp at h
  | succ k ih =>
    unfold ladder at h ⊢
    by_cases hc : a ≥ amax
    · simp [hc]
    · simp only [hc, if_false, List.length_cons] at h ⊢
      obtain ⟨x, hx, hge⟩ := ih (a * b) (by omega)
      refine ⟨x, ?_, hge⟩
      cases hl : ladder k (a * b) b amax with
      | nil => simp [hl] at hx
      | cons y ys => rw [hl] at hx; simp [List.getLast?_cons_cons] at hx ⊢; exact hx

/-! ### which orbital momenta couple to an auxiliary momentum -/

theorem mem_couples (lmax laux l lp : Nat) :
    (l, lp) ∈ couples lmax laux ↔ l ≤ lp ∧ lp ≤ lmax ∧ lp - l ≤ laux ∧ laux ≤ l + lp := by
  unfold couples
  simp only [List.mem_flatMap, List.mem_range, List.mem_map, List.mem_filter, decide_eq_true_eq, Prod.mk.injEq]
  constructor
  · rintro ⟨l', hl', lp', ⟨hlp', h1, h2, h3⟩, rfl, rfl⟩
    exact ⟨h1, by omega, h2, h3⟩
  · rintro ⟨h1, h2, h3, h4⟩
    exact ⟨l, by omega, lp, ⟨by omega, h1, h3, h4⟩, rfl, rfl⟩

/-- the ladder start is the **smallest** sum of two orbital minimum exponents over the coupling pairs -/
theorem minOver_is_min (f : Nat × Nat → Rat) (ps : List (Nat × Nat)) (m : Rat) (h : minOver f ps = some m) :
    (∃ p ∈ ps, f p = m) ∧ ∀ p ∈ ps, m ≤ f p := by
  induction ps generalizing m with
  | nil => simp [minOver] at h
  | cons q qs ih =>
    unfold minOver at h
    cases hq : minOver f qs with
    | none =>
      simp only [hq, Option.some.injEq] at h
      subst h
      cases qs with
      | nil => exact ⟨⟨q, by simp, rfl⟩, by intro p hp; simp at hp; subst hp; exact Rat.le_refl⟩
      | cons r rs =>
        exfalso
        unfold minOver at hq
        cases hh : minOver f rs <;> simp [hh] at hq
    | some m' =>
      simp only [hq, Option.some.injEq] at h
      obtain ⟨⟨p0, hp0, hf0⟩, hall⟩ := ih m' hq
      by_cases hle : f q ≤ m'
      · simp only [hle, if_true] at h
        subst h
        refine ⟨⟨q, by simp, rfl⟩, ?_⟩
        intro p hp
        rcases List.mem_cons.1 hp with rfl | hp
        · exact Rat.le_refl
        · exact Rat.le_trans hle (hall p hp)
      · simp only [hle, if_false] at h
        subst h
        refine ⟨⟨p0, by simp [hp0], hf0⟩, ?_⟩
        intro p hp
        rcases List.mem_cons.1 hp with rfl | hp
        · exact Rat.le_of_lt (Rat.not_le.1 hle)
        · exact hall p hp

/-- **representation independence**: the plan is a function of the element number and of the
per-momentum extreme exponents only — nothing else about the orbital basis enters (by construction
of `autoauxPlan`; stated so that any change of its signature is visible) -/
theorem autoaux_repr_indep (Z : Nat) (amin amaxP amaxE amin' amaxP' amaxE' : List Rat) (fuel : Nat)
    (h1 : amin = amin') (h2 : amaxP = amaxP') (h3 : amaxE = amaxE') :
    autoauxPlan Z amin amaxP amaxE fuel = autoauxPlan Z amin' amaxP' amaxE' fuel := by
  subst h1; subst h2; subst h3; rfl

example : ladder 10 1 2 5 = [1, 2, 4, 8] := by decide +kernel
example : lmaxAuxOf (lvalAux 30) (lincAux 30) 2 = 4 ∧ lmaxAuxOf (lvalAux 1) (lincAux 1) 1 = 2 := by decide +kernel

end BSE.Props.C13
