import BSEModel.PruneFuncs
import BSEModel.Spdf
import BSEModel.MakeGeneral
import BSEModel.ManipOps
import BSEModel.Canon
import BSEGen.Manip
import BSEGen.Api
import BSEProofs.Lemmas.PruneFull
import BSEProofs.Lemmas.SortPerm
import BSEProofs.Lemmas.Shapes
import BSEProofs.Lemmas.SortShape
/-! # C02 — re-contraction operations preserve the set of basis functions exactly

`funcSet val shells f` : the contracted function `f = (l, exponent ↦ coefficient)` occurs in the
element's shell list.  All statements hold for every valuation `val` of number tokens, every shell
list, every `max_am`.  The lemmas they rest on are in `BSEModel/*` (ported from the prototypes). -/
namespace BSE.Props.C02
open BSE

variable {ν : Type}

/-- **prune_shell** (merging of equal exponents, dropping dead primitives) keeps every contracted
function of a rectangular shell — or raises -/
theorem pruneShell_preserves (val : ν → Rat) (sh sh' : Shell ν)
    (hr : Rect sh.exps.length sh.coefs) (hne : sh.coefs ≠ [])
    (h : pruneShell val sh = .ok sh') (hkeep : sh'.exps ≠ []) :
    sh'.funcs val = sh.funcs val :=
  pruneShell_funcs val sh sh' _ rfl hr hne h hkeep

/-- the duplicate-shell removal of **prune_basis** keeps the set -/
theorem pruneBasis_dedup_preserves [DecidableEq ν] (val : ν → Rat) (l : List (Shell ν)) (f : Func) :
    funcSet val (dedup [] l) f ↔ funcSet val l f :=
  funcSet_dedup val l f

/-- **uncontract_general** (the splitting step) keeps the set -/
theorem uncontractGeneral_preserves (val : ν → Rat) (shells : List (Shell ν)) (f : Func)
    (hwf : ∀ sh ∈ shells, sh.am ≠ []) :
    funcSet val (uncontractGeneralCore shells) f ↔ funcSet val shells f :=
  funcSet_uncontractGeneralCore val shells f hwf

/-- **uncontract_spdf** keeps the set for every `max_am`, with no hypothesis on the shells -/
theorem uncontractSpdf_preserves (val : ν → Rat) (k : Nat) (shells : List (Shell ν)) (f : Func) :
    funcSet val (uncontractSpdf k shells) f ↔ funcSet val shells f :=
  funcSet_uncontractSpdf val k shells f

/-- the zero with which `make_general` pads (read from the source on every run) is a zero -/
theorem mgZero_is_zero : numVal BSE.Gen.Manip.mgZero = 0 := by decide +kernel

/-- the inner call of `make_general` is `uncontract_spdf(basis, 0, …)` followed by `prune_basis` -/
theorem makeGeneral_calls : BSE.Gen.Manip.makeGeneralCalls.map (·.op) = [.uncontractSpdf 0, .pruneBasis] := by
  decide

/-- **make_general** (per-momentum concatenation with zero padding at the primitive offset, the
step before pruning) keeps the set, with the padding literal and momentum sort of the code -/
theorem makeGeneral_preserves [DecidableEq ν] (val : ν → Rat) (zero : ν) (hz : val zero = 0)
    (shells : List (Shell ν)) (hr : ∀ sh ∈ shells, RectShell sh) (ham : ∀ sh ∈ shells, sh.am ≠ [])
    (f : Func) :
    funcSet val (makeGeneralCore zero sortAm shells) f ↔ funcSet val shells f :=
  funcSet_makeGeneralCore val zero hz sortAm (fun l x => mem_sortAm l x) shells hr ham f

/-- instantiated for the code's own literal -/
theorem makeGeneral_preserves_code (shells : List (Shell String))
    (hr : ∀ sh ∈ shells, RectShell sh) (ham : ∀ sh ∈ shells, sh.am ≠ []) (f : Func) :
    funcSet numVal (makeGeneralCore BSE.Gen.Manip.mgZero sortAm shells) f ↔ funcSet numVal shells f :=
  makeGeneral_preserves numVal _ mgZero_is_zero shells hr ham f

/-- **the checker the driver runs is sound**: `sameFuncs = true` implies equal function sets -/
theorem checker_sound (val : ν → Rat) (a b : List (Shell ν)) (h : sameFuncs val a b = true) (f : Func) :
    funcSet val a f ↔ funcSet val b f :=
  sameFuncs_sound val a b h f

/-- the three re-contraction flags of `get_basis` run in the order
uncontract_general → uncontract_spdf(0) → make_general → prune_basis, each setting `needs_pruning` -/
theorem getBasis_block_order :
    (BSE.Gen.Api.optionBlocks.filter (fun b => b.cond ∈ ["uncontract_general", "uncontract_spdf", "make_general", "needs_pruning"])).map
        (fun b => (b.cond, b.steps.map (·.op), b.setsPrune))
      = [("uncontract_general", [.uncontractGeneral], true), ("uncontract_spdf", [.uncontractSpdf 0], true),
         ("make_general", [.makeGeneral false], true), ("needs_pruning", [.pruneBasis], false)] := by
  decide

/-! ## whole operations (core step **and** the pruning pass that follows it)

`SemWF val sh`: the shell is rectangular, has a momentum and a column, and no column is the zero function under
`val` (the validator's "no all-zero contraction" rule, stated on values).  Under it the pruning pass cannot raise
"shell emptied" and cannot drop a function, so the *whole* operation — as `get_basis` runs it — keeps the set. -/

/-- **prune_basis** (every shell pruned, then exact-duplicate shells dropped): if it returns, the set is the same -/
theorem pruneBasis_preserves_full [DecidableEq ν] (val : ν → Rat) (shells out : List (Shell ν))
    (hw : ∀ sh ∈ shells, SemWF val sh) (h : pruneShells val shells = .ok out) (f : Func) :
    funcSet val out f ↔ funcSet val shells f :=
  funcSet_pruneShells val shells out hw h f

/-- a well-formed shell survives pruning with at least one primitive -/
theorem pruneShell_never_empties (val : ν → Rat) (sh sh' : Shell ν) (hw : SemWF val sh)
    (h : pruneShell val sh = .ok sh') : sh'.exps ≠ [] :=
  pruneShell_survives val sh sh' hw h

/-- **uncontract_general** including its pruning pass -/
theorem uncontractGeneral_preserves_full [DecidableEq ν] (val : ν → Rat) (shells out : List (Shell ν))
    (hw : ∀ sh ∈ shells, SemWF val sh) (h : uncontractGeneral val shells = .ok out) (f : Func) :
    funcSet val out f ↔ funcSet val shells f :=
  funcSet_uncontractGeneral val shells out hw h f

/-- **make_general** as called by `get_basis`: optional split of fused shells, per-momentum merge with zero
padding, pruning pass.  If it returns (it raises on mixed function types), the set is the same. -/
theorem makeGeneral_preserves_full [DecidableEq ν] (val : ν → Rat) (zero : ν) (hz : val zero = 0) (skip : Bool)
    (shells out : List (Shell ν))
    (hw : ∀ sh ∈ (if skip then shells else uncontractSpdf 0 shells), SemWF val sh)
    (h : makeGeneral val zero skip shells = .ok out) (f : Func) :
    funcSet val out f ↔ funcSet val shells f :=
  funcSet_makeGeneral val zero hz skip shells out hw h f

/-- … with the padding literal of the source -/
theorem makeGeneral_preserves_full_code (skip : Bool) (shells out : List (Shell String))
    (hw : ∀ sh ∈ (if skip then shells else uncontractSpdf 0 shells), SemWF numVal sh)
    (h : makeGeneral numVal BSE.Gen.Manip.mgZero skip shells = .ok out) (f : Func) :
    funcSet numVal out f ↔ funcSet numVal shells f :=
  makeGeneral_preserves_full numVal _ mgZero_is_zero skip shells out hw h f

/-- **sort_shell**: reordering primitives (every column with them) and, for a single-momentum shell, the columns
only permutes the functions of the shell -/
theorem sortShell_preserves (val : ν → Rat) (rsq : List Rat) (sh : Shell ν) (hr : RectShell sh)
    (hk : sh.am.length = 1 → rsq.length = sh.coefs.length) (f : Func) :
    f ∈ (sortShell val rsq sh).funcs val ↔ f ∈ sh.funcs val :=
  mem_funcs_sortShell val rsq sh hr hk f

/-- **sort_shells** (each shell sorted, then the shells stably sorted by key) keeps the set, whatever the keys -/
theorem sortShells_preserves (val : ν → Rat) (keyed : List (Shell ν × List Rat × Rat))
    (hw : ∀ t ∈ keyed, RectShell t.1 ∧ (t.1.am.length = 1 → t.2.1.length = t.1.coefs.length)) (f : Func) :
    funcSet val (sortShells val keyed) f ↔ funcSet val (keyed.map (·.1)) f :=
  funcSet_sortShells val keyed hw f

/-! ## shape promises — what the result of each operation looks like, for every input -/

/-- **uncontract_general**: no general contraction is left in a single-momentum shell (whole operation, pruning included) -/
theorem uncontractGeneral_shape [DecidableEq ν] (val : ν → Rat) (shells out : List (Shell ν))
    (hw : ∀ sh ∈ shells, SemWF val sh) (h : uncontractGeneral val shells = .ok out) :
    ∀ s ∈ out, s.am.length = 1 → s.coefs.length = 1 :=
  fun s hs h1 => BSE.uncontractGeneral_shape val shells out hw h s hs h1

/-- **uncontract_spdf**: no fused shell of the result has a member above `max_am` — every shell list, every `max_am` -/
theorem uncontractSpdf_shape (k : Nat) (shells : List (Shell ν)) :
    ∀ s ∈ uncontractSpdf k shells, s.am.length > 1 → ∀ a ∈ s.am, a ≤ k :=
  fun s hs hf => BSE.uncontractSpdf_shape k shells s hs hf

/-- **make_general**: one shell per angular momentum among the single-momentum shells, in ascending order (whole operation) -/
theorem makeGeneral_shape [DecidableEq ν] (val : ν → Rat) (zero : ν) (hz : val zero = 0) (skip : Bool)
    (shells out : List (Shell ν))
    (hw : ∀ sh ∈ (if skip then shells else uncontractSpdf 0 shells), SemWF val sh)
    (h : makeGeneral val zero skip shells = .ok out) :
    ((out.map (·.am)).filter (fun am => ¬ am.length > 1)).Nodup ∧
    ((out.map (·.am)).filter (fun am => ¬ am.length > 1)).Pairwise (fun x y => x.headD 0 ≤ y.headD 0) :=
  BSE.makeGeneral_shape val zero hz skip shells out hw h

/-- the merge step neither creates nor drops fused shells -/
theorem makeGeneral_keeps_fused [DecidableEq ν] (zero : ν) (shells : List (Shell ν)) :
    (makeGeneralCore zero sortAm shells).filter (fun sh => sh.am.length > 1) = shells.filter (fun sh => sh.am.length > 1) :=
  makeGeneralCore_fused zero shells

/-- **sort_basis / sort_shell**: exponents in decreasing order of value — every shell, every key list -/
theorem sortShell_exponents_decreasing (val : ν → Rat) (rsq : List Rat) (sh : Shell ν) :
    ((sortShell val rsq sh).exps.map val).Pairwise (fun a b => a ≥ b) :=
  sortShell_exps_sorted val rsq sh

/-- **sort_basis / sort_shells**: shells by increasing (highest) momentum, each with decreasing exponents -/
theorem sortShells_momentum_increasing (val : ν → Rat) (keyed : List (Shell ν × List Rat × Rat)) :
    ((sortShells val keyed).map (fun s => s.am.foldl max 0)).Pairwise (fun a b => a ≤ b) ∧
    ∀ s ∈ sortShells val keyed, (s.exps.map val).Pairwise (fun a b => a ≥ b) :=
  ⟨sortShells_am_sorted val keyed, sortShells_exps_sorted val keyed⟩

/-- **sort_shell is idempotent** when the spatial-extent keys move with their contractions (they are a function of
the contraction: `_spatial_extent` is computed column by column) -/
theorem sortShell_idempotent (val : ν → Rat) (rsq : List Rat) (sh : Shell ν) :
    sortShell val (permBy (cIdx rsq sh) rsq) (sortShell val rsq sh) = sortShell val rsq sh :=
  sortShell_idem val rsq sh

/-! non-vacuity: a concrete fused + general element meets the hypotheses and the operations act -/
def demo : List (Shell String) :=
  [{ am := [0, 1], ftype := "gto", region := "", exps := ["2.0", "1.0"], coefs := [["0.5", "0.5"], ["0.3", "0.7"]] },
   { am := [2], ftype := "gto_spherical", region := "", exps := ["3.0", "1.0"], coefs := [["1.0", "0.0"], ["0.0", "1.0"]] }]

example : (∀ sh ∈ demo, RectShell sh) ∧ (∀ sh ∈ demo, sh.am ≠ []) := by
  refine ⟨?_, ?_⟩ <;> intro sh h <;> simp [demo] at h <;> rcases h with rfl | rfl <;> simp [RectShell]
def demo1 : List (Shell String) :=
  [{ am := [0], ftype := "gto", region := "", exps := ["2.0", "1.0"], coefs := [["0.5", "0.5"]] },
   { am := [0], ftype := "gto", region := "", exps := ["0.25"], coefs := [["1.0"]] },
   { am := [2], ftype := "gto_spherical", region := "", exps := ["3.0", "1.0"], coefs := [["1.0", "0.0"], ["0.0", "1.0"]] }]

/-- a three-shell element is semantically well-formed; (that the operations return `.ok` on such elements is what the driver exhibits on every store element) -/
example : ∀ sh ∈ demo1, SemWF numVal sh := by
  intro sh h
  simp only [demo1, List.mem_cons, List.not_mem_nil, or_false] at h
  rcases h with rfl | rfl | rfl
  · exact ⟨by simp, by intro c hc; simp at hc; subst hc; rfl, by simp,
      by intro c hc; simp at hc; subst hc; exact ⟨2, by decide +kernel⟩⟩
  · exact ⟨by simp, by intro c hc; simp at hc; subst hc; rfl, by simp,
      by intro c hc; simp at hc; subst hc; exact ⟨1/4, by decide +kernel⟩⟩
  · exact ⟨by simp, by intro c hc; simp at hc; rcases hc with rfl | rfl <;> rfl, by simp,
      by intro c hc; simp at hc; rcases hc with rfl | rfl
         · exact ⟨3, by decide +kernel⟩
         · exact ⟨1, by decide +kernel⟩⟩
example : (uncontractSpdf 0 demo).length = 3 ∧ (uncontractGeneralCore demo).length = 3 := by decide

end BSE.Props.C02
