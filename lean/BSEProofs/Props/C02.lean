import BSEModel.PruneFuncs
import BSEModel.Spdf
import BSEModel.MakeGeneral
import BSEModel.ManipOps
import BSEModel.Canon
import BSEGen.Manip
import BSEGen.Api
/-! # C02 — re-contraction operations preserve the set of basis functions exactly

`funcSet val shells f` : the contracted function `f = (l, exponent ↦ coefficient)` occurs in the
element's shell list.  All statements hold for every valuation `val` of number tokens, every shell
list, every `max_am`.  The lemmas they rest on are in `BSEModel/*` (ported from the prototypes). -/
namespace BSE.Props.C02
open BSE

variable {ν : Type}

/-- **prune_shell** (merging of equal exponents, dropping dead primitives) keeps every contracted
function of a rectangular shell — or raises -/
theorem pruneShell_preserves (val : ν → Rat) (sh sh' : Shell ν)
    (hr : Rect sh.exps.length sh.coefs) (hne : sh.coefs ≠ [])
    (h : pruneShell val sh = .ok sh') (hkeep : sh'.exps ≠ []) :
    sh'.funcs val = sh.funcs val :=
  pruneShell_funcs val sh sh' _ rfl hr hne h hkeep

/-- the duplicate-shell removal of **prune_basis** keeps the set -/
theorem pruneBasis_dedup_preserves [DecidableEq ν] (val : ν → Rat) (l : List (Shell ν)) (f : Func) :
    funcSet val (dedup [] l) f ↔ funcSet val l f :=
  funcSet_dedup val l f

/-- **uncontract_general** (the splitting step) keeps the set -/
theorem uncontractGeneral_preserves (val : ν → Rat) (shells : List (Shell ν)) (f : Func)
    (hwf : ∀ sh ∈ shells, sh.am ≠ []) :
    funcSet val (uncontractGeneralCore shells) f ↔ funcSet val shells f :=
  funcSet_uncontractGeneralCore val shells f hwf

/-- **uncontract_spdf** keeps the set for every `max_am`, with no hypothesis on the shells -/
theorem uncontractSpdf_preserves (val : ν → Rat) (k : Nat) (shells : List (Shell ν)) (f : Func) :
    funcSet val (uncontractSpdf k shells) f ↔ funcSet val shells f :=
  funcSet_uncontractSpdf val k shells f

/-- membership in `sortAm` -/
theorem mem_insertAm (a x : List Nat) (l : List (List Nat)) : x ∈ insertAm a l ↔ x = a ∨ x ∈ l := by
  induction l with
  | nil => simp [insertAm]
  | cons b bs ih =>
    unfold insertAm
    split
    · simp
    · simp only [List.mem_cons, ih]
      constructor
      · rintro (h | h | h) <;> simp [h]
      · rintro (h | h | h) <;> simp [h]

theorem mem_sortAm (l : List (List Nat)) (x : List Nat) : x ∈ sortAm l ↔ x ∈ l := by
  induction l with
  | nil => simp [sortAm]
  | cons a as ih =>
    show x ∈ insertAm a (sortAm as) ↔ _
    rw [mem_insertAm, ih]; simp

/-- the zero with which `make_general` pads (read from the source on every run) is a zero -/
theorem mgZero_is_zero : numVal BSE.Gen.Manip.mgZero = 0 := by decide +kernel

/-- the inner call of `make_general` is `uncontract_spdf(basis, 0, …)` followed by `prune_basis` -/
theorem makeGeneral_calls : BSE.Gen.Manip.makeGeneralCalls.map (·.op) = [.uncontractSpdf 0, .pruneBasis] := by
  decide

/-- **make_general** (per-momentum concatenation with zero padding at the primitive offset, the
step before pruning) keeps the set, with the padding literal and momentum sort of the code -/
theorem makeGeneral_preserves [DecidableEq ν] (val : ν → Rat) (zero : ν) (hz : val zero = 0)
    (shells : List (Shell ν)) (hr : ∀ sh ∈ shells, RectShell sh) (ham : ∀ sh ∈ shells, sh.am ≠ [])
    (f : Func) :
    funcSet val (makeGeneralCore zero sortAm shells) f ↔ funcSet val shells f :=
  funcSet_makeGeneralCore val zero hz sortAm (fun l x => mem_sortAm l x) shells hr ham f

/-- instantiated for the code's own literal -/
theorem makeGeneral_preserves_code (shells : List (Shell String))
    (hr : ∀ sh ∈ shells, RectShell sh) (ham : ∀ sh ∈ shells, sh.am ≠ []) (f : Func) :
    funcSet numVal (makeGeneralCore BSE.Gen.Manip.mgZero sortAm shells) f ↔ funcSet numVal shells f :=
  makeGeneral_preserves numVal _ mgZero_is_zero shells hr ham f

/-- **the checker the driver runs is sound**: `sameFuncs = true` implies equal function sets -/
theorem checker_sound (val : ν → Rat) (a b : List (Shell ν)) (h : sameFuncs val a b = true) (f : Func) :
    funcSet val a f ↔ funcSet val b f :=
  sameFuncs_sound val a b h f

/-- the three re-contraction flags of `get_basis` run in the order
uncontract_general → uncontract_spdf(0) → make_general → prune_basis, each setting `needs_pruning` -/
theorem getBasis_block_order :
    (BSE.Gen.Api.optionBlocks.filter (fun b => b.cond ∈ ["uncontract_general", "uncontract_spdf", "make_general", "needs_pruning"])).map
        (fun b => (b.cond, b.steps.map (·.op), b.setsPrune))
      = [("uncontract_general", [.uncontractGeneral], true), ("uncontract_spdf", [.uncontractSpdf 0], true),
         ("make_general", [.makeGeneral false], true), ("needs_pruning", [.pruneBasis], false)] := by
  decide

/-! non-vacuity: a concrete fused + general element meets the hypotheses and the operations act -/
def demo : List (Shell String) :=
  [{ am := [0, 1], ftype := "gto", region := "", exps := ["2.0", "1.0"], coefs := [["0.5", "0.5"], ["0.3", "0.7"]] },
   { am := [2], ftype := "gto_spherical", region := "", exps := ["3.0", "1.0"], coefs := [["1.0", "0.0"], ["0.0", "1.0"]] }]

example : (∀ sh ∈ demo, RectShell sh) ∧ (∀ sh ∈ demo, sh.am ≠ []) := by
  refine ⟨?_, ?_⟩ <;> intro sh h <;> simp [demo] at h <;> rcases h with rfl | rfl <;> simp [RectShell]
example : (uncontractSpdf 0 demo).length = 3 ∧ (uncontractGeneralCore demo).length = 3 := by decide

end BSE.Props.C02
