import BSEModel.Validator
import BSEModel.Num
/-! # C18 — the validator accepts exactly the well-formed basis data

`ValidShell` / `ValidPots` are the declarative rule lists of the property; `validateShell` /
`validatePots` are the executable models of `validator.py` (correspondence-checked against it). -/
namespace BSE.Props.C18
open BSE

section
variable {ν : Type}

theorem firstErr_none {α ε} (f : α → Option ε) (l : List α) :
    firstErr (l.map f) = none ↔ ∀ x ∈ l, f x = none := by
  induction l with
  | nil => simp [firstErr]
  | cons a as ih =>
    simp only [List.map_cons, List.mem_cons, forall_eq_or_imp]
    cases h : f a with
    | none => simp [firstErr, ih]
    | some e => simp [firstErr]

theorem hasDup_false {α} [DecidableEq α] (l : List α) : hasDup l = false ↔ l.Nodup := by
  unfold hasDup
  rw [List.nodup_iff_count]
  constructor
  · intro h a
    by_cases ha : a ∈ l
    · have := List.any_eq_false.1 h a ha
      simp only [bne_iff_ne, ne_eq, Decidable.not_not] at this
      omega
    · rw [List.count_eq_zero_of_not_mem ha]; omega
  · intro h
    apply List.any_eq_false.2
    intro a ha
    have h1 := h a
    have h2 : 0 < l.count a := List.count_pos_iff.2 ha
    simp only [bne_iff_ne, ne_eq, Decidable.not_not]
    omega

theorem allZero_false (val : ν → Rat) (l : List ν) : allZero val l = false ↔ ∃ c ∈ l, val c ≠ 0 := by
  unfold allZero
  rw [List.all_eq_false]
  constructor
  · rintro ⟨c, hc, h⟩; exact ⟨c, hc, by simpa using h⟩
  · rintro ⟨c, hc, h⟩; exact ⟨c, hc, by simpa using h⟩

/-- the documented rules for one electron shell -/
structure ValidShell (val : ν → Rat) (sh : Shell ν) : Prop where
  am_nonempty : sh.am ≠ []
  has_primitive : sh.exps.length ≠ 0
  /-- spherical/cartesian tag present exactly when l > 1 -/
  tag_high : sh.am.foldl max 0 > 1 → (sh.ftype = "gto_spherical" ∨ sh.ftype = "gto_cartesian")
  tag_low : ¬ sh.am.foldl max 0 > 1 → ¬ (strInfix "spherical" sh.ftype = true ∨ strInfix "cartesian" sh.ftype = true)
  /-- exponents pairwise distinct in value -/
  distinct : (sh.exps.map val).Nodup
  /-- and positive -/
  positive : ∀ x ∈ sh.exps.map val, x > 0
  /-- every coefficient row matches the exponent count and is not all zero -/
  columns : ∀ g ∈ sh.coefs, g.length = sh.exps.length ∧ ∃ c ∈ g, val c ≠ 0
  /-- no duplicate contraction in a single-momentum shell -/
  no_dup_column : sh.am.length = 1 → (sh.coefs.map (·.map val)).Nodup
  /-- no unused primitive -/
  no_unused : ∀ r ∈ rowsOf sh.coefs, ∃ c ∈ r, val c ≠ 0
  /-- one contraction per member of a fused shell -/
  fused : sh.am.length > 1 → sh.coefs.length = sh.am.length

/-- **the validator model accepts a shell exactly when it satisfies every documented rule** -/
theorem validateShell_iff (val : ν → Rat) (sh : Shell ν) : validateShell val sh = none ↔ ValidShell val sh := by
  unfold validateShell
  constructor
  · intro h
    split at h
    · cases h
    · rename_i h1
      split at h
      · cases h
      · rename_i h2
        simp only at h
        split at h
        · cases h
        · rename_i h3
          split at h
          · cases h
          · rename_i h4
            split at h
            · cases h
            · rename_i h5
              split at h
              · cases h
              · rename_i h6
                split at h
                · cases h
                · rename_i hcols
                  split at h
                  · cases h
                  · rename_i h7
                    split at h
                    · cases h
                    · rename_i h8
                      split at h
                      · cases h
                      · rename_i h9
                        have hc := (firstErr_none _ sh.coefs).1 hcols
                        refine ⟨h1, h2, ?_, ?_, ?_, ?_, ?_, ?_, ?_, ?_⟩
                        · intro hm
                          by_cases ht : sh.ftype = "gto_spherical" ∨ sh.ftype = "gto_cartesian"
                          · exact ht
                          · exact absurd ⟨hm, ht⟩ h3
                        · intro hm hb; exact h4 ⟨hm, hb⟩
                        · exact (hasDup_false _).1 (by simpa using h5)
                        · intro x hx
                          have h6' : (sh.exps.map val).any (fun x => decide (¬ x > 0)) = false := by
                            cases hq : (sh.exps.map val).any (fun x => decide (¬ x > 0)) with
                            | false => rfl
                            | true => exact absurd hq h6
                          have := List.any_eq_false.1 h6' x hx
                          simpa using this
                        · intro g hg
                          have := hc g hg
                          by_cases hl : g.length ≠ sh.exps.length
                          · simp [hl] at this
                          · simp only [hl, if_false] at this
                            refine ⟨by simpa using hl, ?_⟩
                            by_cases hz : allZero val g = true
                            · simp [hz] at this
                            · exact (allZero_false val g).1 (by simpa using hz)
                        · intro hl
                          by_cases hd : hasDup (sh.coefs.map (·.map val)) = true
                          · exact absurd ⟨hl, hd⟩ h7
                          · exact (hasDup_false _).1 (by simpa using hd)
                        · intro r hr
                          have := List.any_eq_false.1 (by simpa using h8) r hr
                          exact (allZero_false val r).1 (by simpa using this)
                        · intro hl
                          by_cases hn : sh.coefs.length ≠ sh.am.length
                          · exact absurd ⟨hl, hn⟩ h9
                          · simpa using hn
  · intro v
    have h5 : hasDup (sh.exps.map val) = false := (hasDup_false _).2 v.distinct
    have h6 : (sh.exps.map val).any (fun x => decide (¬ x > 0)) = false := by
      apply List.any_eq_false.2
      intro x hx
      simpa using v.positive x hx
    have hcols : firstErr (sh.coefs.map fun g =>
        if g.length ≠ sh.exps.length then some VErr.rowLen
        else if allZero val g then some VErr.zeroCol else none) = none := by
      apply (firstErr_none _ sh.coefs).2
      intro g hg
      obtain ⟨hl, hz⟩ := v.columns g hg
      have : allZero val g = false := (allZero_false val g).2 hz
      simp [hl, this]
    have h8 : (rowsOf sh.coefs).any (allZero val) = false := by
      apply List.any_eq_false.2
      intro r hr
      have := (allZero_false val r).2 (v.no_unused r hr)
      simp [this]
    have h3 : ¬ (sh.am.foldl max 0 > 1 ∧ ¬ (sh.ftype = "gto_spherical" ∨ sh.ftype = "gto_cartesian")) :=
      fun ⟨a, b⟩ => b (v.tag_high a)
    have h4 : ¬ (¬ sh.am.foldl max 0 > 1 ∧ (strInfix "spherical" sh.ftype = true ∨ strInfix "cartesian" sh.ftype = true)) :=
      fun ⟨a, b⟩ => v.tag_low a b
    have h7 : ¬ (sh.am.length = 1 ∧ hasDup (sh.coefs.map (·.map val)) = true) := by
      rintro ⟨a, b⟩
      have := (hasDup_false _).2 (v.no_dup_column a)
      rw [this] at b; cases b
    have h9 : ¬ (sh.am.length > 1 ∧ sh.coefs.length ≠ sh.am.length) := fun ⟨a, b⟩ => b (v.fused a)
    simp only [v.am_nonempty, v.has_primitive, if_false, h3, h4, h5, h6, hcols, h7, h8, h9, Bool.false_eq_true]

/-- every single violation of a rule is rejected: if the model accepts, each rule holds — so a
dictionary in which any one rule fails cannot be accepted (contrapositive of the iff, per rule) -/
theorem reject_nonpositive (val : ν → Rat) (sh : Shell ν) (x : ν) (hx : x ∈ sh.exps) (h : ¬ val x > 0) :
    validateShell val sh ≠ none := fun hv =>
  h (((validateShell_iff val sh).1 hv).positive (val x) (List.mem_map.2 ⟨x, hx, rfl⟩))

theorem reject_zero_column (val : ν → Rat) (sh : Shell ν) (g : List ν) (hg : g ∈ sh.coefs)
    (h : ∀ c ∈ g, val c = 0) : validateShell val sh ≠ none := fun hv => by
  obtain ⟨_, c, hc, hne⟩ := ((validateShell_iff val sh).1 hv).columns g hg
  exact hne (h c hc)

theorem reject_row_length (val : ν → Rat) (sh : Shell ν) (g : List ν) (hg : g ∈ sh.coefs)
    (h : g.length ≠ sh.exps.length) : validateShell val sh ≠ none := fun hv =>
  h (((validateShell_iff val sh).1 hv).columns g hg).1

/-- a list of shells is accepted iff every shell is -/
theorem validateShells_iff (val : ν → Rat) (shells : List (Shell ν)) :
    validateShells val shells = none ↔ ∀ sh ∈ shells, ValidShell val sh := by
  unfold validateShells
  rw [firstErr_none]
  constructor
  · intro h sh hs; exact (validateShell_iff val sh).1 (h sh hs)
  · intro h sh hs; exact (validateShell_iff val sh).2 (h sh hs)

/-! ## ECP potentials and the element level -/

theorem ite_some_none {ε} (c : Prop) [Decidable c] (e : ε) (x : Option ε) :
    (if c then some e else x) = none ↔ ¬ c ∧ x = none := by
  by_cases h : c <;> simp [h]

theorem firstOf_none {ε} (a b : Option ε) : firstOf a b = none ↔ a = none ∧ b = none := by
  cases a <;> simp [firstOf]

/-- a potential is checked strictly unless it is the single-term potential of the highest momentum -/
def strictPot (pots : List (Pot ν)) (p : Pot ν) : Prop :=
  p.rexp.length > 1 ∨ p.am ≠ maxLex (pots.map (·.am))

/-- the documented rules for the ECP potentials of an element -/
structure ValidPots (val : ν → Rat) (pots : List (Pot ν)) : Prop where
  /-- no fused potential -/
  single : ∀ p ∈ pots, ¬ p.am.length > 1
  /-- one potential per angular momentum -/
  distinct_am : (pots.map (·.am.headD 0)).Nodup
  /-- as many Gaussian exponents as r-exponents -/
  lengths : ∀ p ∈ pots, p.gexp.length = p.rexp.length
  /-- every coefficient row matches; not all zero when the potential is checked strictly -/
  columns : ∀ p ∈ pots, ∀ g ∈ p.coefs, g.length = p.rexp.length ∧ (strictPot pots p → ∃ c ∈ g, val c ≠ 0)
  no_dup_column : ∀ p ∈ pots, (p.coefs.map (·.map val)).Nodup
  no_unused : ∀ p ∈ pots, strictPot pots p → ∀ r ∈ rowsOf p.coefs, ∃ c ∈ r, val c ≠ 0

theorem strict_bool (pots : List (Pot ν)) (p : Pot ν) :
    (decide (p.rexp.length > 1) || p.am != maxLex (pots.map (·.am))) = true ↔ strictPot pots p := by
  unfold strictPot; simp

/-- **the validator model accepts the potentials exactly when they satisfy every documented ECP rule** -/
theorem validatePots_iff (val : ν → Rat) (pots : List (Pot ν)) : validatePots val pots = none ↔ ValidPots val pots := by
  unfold validatePots validatePot
  simp only [ite_some_none, firstErr_none, firstOf_none]
  constructor
  · rintro ⟨h1, h2, h3⟩
    have hs : ∀ p ∈ pots, ¬ p.am.length > 1 := by
      intro p hp hgt
      exact h1 (List.any_eq_true.2 ⟨p, hp, by simpa using hgt⟩)
    have hd : (pots.map (·.am.headD 0)).Nodup := (hasDup_false _).1 (by simpa using h2)
    refine ⟨hs, hd, fun p hp => ?_, fun p hp g hg => ?_, fun p hp => ?_, fun p hp hst r hr => ?_⟩
    · have := (h3 p hp).1; simpa using this
    · obtain ⟨_, hcols, _, _⟩ := h3 p hp
      obtain ⟨hl, hz⟩ := hcols g hg
      refine ⟨by simpa using hl, fun hst => ?_⟩
      have hb := (strict_bool pots p).2 hst
      have : allZero val g = false := by
        cases hq : allZero val g with
        | false => rfl
        | true => exact absurd (by simp [hb, hq]) hz.1
      exact (allZero_false val g).1 this
    · obtain ⟨_, _, hdup, _⟩ := h3 p hp
      exact (hasDup_false _).1 (by simpa using hdup)
    · obtain ⟨_, _, _, hun, _⟩ := h3 p hp
      have hb := (strict_bool pots p).2 hst
      have hany : (rowsOf p.coefs).any (allZero val) = false := by
        cases hq : (rowsOf p.coefs).any (allZero val) with
        | false => rfl
        | true => exact absurd (by simp [hb, hq]) hun
      exact (allZero_false val r).1 (List.any_eq_false.1 hany r hr |> fun h => by simpa using h)
  · intro v
    refine ⟨?_, ?_, fun p hp => ⟨?_, fun g hg => ⟨?_, ?_, trivial⟩, ?_, ?_, trivial⟩⟩
    · intro h
      obtain ⟨p, hp, hgt⟩ := List.any_eq_true.1 h
      exact v.single p hp (by simpa using hgt)
    · have := (hasDup_false _).2 v.distinct_am
      simpa using this
    · simpa using v.lengths p hp
    · simpa using (v.columns p hp g hg).1
    · intro hb
      simp only [Bool.and_eq_true] at hb
      obtain ⟨c, hc, hne⟩ := (v.columns p hp g hg).2 ((strict_bool pots p).1 hb.1)
      have := (allZero_false val g).2 ⟨c, hc, hne⟩
      rw [this] at hb; exact absurd hb.2 (by simp)
    · have := (hasDup_false _).2 (v.no_dup_column p hp)
      simp [this]
    · intro hb
      simp only [Bool.and_eq_true] at hb
      obtain ⟨r, hr, hz⟩ := List.any_eq_true.1 hb.2
      obtain ⟨c, hc, hne⟩ := v.no_unused p hp ((strict_bool pots p).1 hb.1) r hr
      have := (allZero_false val r).2 ⟨c, hc, hne⟩
      rw [this] at hz; cases hz

/-- **element level**: accepted iff the shells are valid and pairwise different, and the potentials (which need an
electron count) are valid -/
theorem validateElement_iff [DecidableEq ν] (val : ν → Rat) (shells : Option (List (Shell ν))) (pots : Option (List (Pot ν)))
    (hasElectrons : Bool) :
    validateElement val shells pots hasElectrons = none ↔
      (∀ ss, shells = some ss → (∀ sh ∈ ss, ValidShell val sh) ∧ ss.Nodup)
      ∧ (∀ ps, pots = some ps → hasElectrons = true ∧ ValidPots val ps) := by
  unfold validateElement
  rw [firstOf_none]
  have hS : ∀ ss : List (Shell ν), firstOf (validateShells val ss) (if hasDup ss then some VErr.dupShell else none) = none
      ↔ (∀ sh ∈ ss, ValidShell val sh) ∧ ss.Nodup := by
    intro ss
    simp only [firstOf_none, ite_some_none, validateShells_iff]
    constructor
    · rintro ⟨h1, h2, _⟩; exact ⟨h1, (hasDup_false _).1 (by simpa using h2)⟩
    · rintro ⟨h1, h2⟩; exact ⟨h1, by simp [(hasDup_false _).2 h2], trivial⟩
  have hP : ∀ ps : List (Pot ν), (if hasElectrons = false then some VErr.ecpNoElectrons else validatePots val ps) = none
      ↔ hasElectrons = true ∧ ValidPots val ps := by
    intro ps
    simp only [ite_some_none, validatePots_iff]
    cases hasElectrons <;> simp
  cases shells with
  | none =>
    cases pots with
    | none => simp
    | some ps => simp [hP]
  | some ss =>
    cases pots with
    | none => simp [hS]
    | some ps => simp [hS, hP]

theorem reject_ecp_without_electrons [DecidableEq ν] (val : ν → Rat) (shells : Option (List (Shell ν))) (ps : List (Pot ν)) :
    validateElement val shells (some ps) false ≠ none := fun h =>
  absurd (((validateElement_iff val shells (some ps) false).1 h).2 ps rfl).1 (by simp)

theorem reject_duplicate_shell [DecidableEq ν] (val : ν → Rat) (ss : List (Shell ν)) (pots : Option (List (Pot ν))) (e : Bool)
    (h : ¬ ss.Nodup) : validateElement val (some ss) pots e ≠ none := fun hv =>
  h (((validateElement_iff val (some ss) pots e).1 hv).1 ss rfl).2

end

/-! non-vacuity: a valid shell and six single-rule mutations of it -/
def good : Shell String :=
  { am := [2], ftype := "gto_spherical", region := "", exps := ["3.0", "1.0"], coefs := [["0.5", "0.5"], ["0.0", "1.0"]] }

def m1 : Shell String := { good with ftype := "gto" }
def m2 : Shell String := { good with exps := ["3.0", "3.00"] }
def m3 : Shell String := { good with exps := ["3.0", "-1.0"] }
def m4 : Shell String := { good with coefs := [["0.5", "0.5"], ["0.0", "0.0"]] }
def m5 : Shell String := { good with coefs := [["0.5", "0.5"], ["0.5", "0.50"]] }
def m6 : Shell String := { good with coefs := [["0.5", "0.0"], ["1.0", "0.0"]] }

example : [good, m1, m2, m3, m4, m5, m6].map (validateShell numVal)
    = [none, some VErr.needTag, some VErr.dupExp, some VErr.nonposExp, some VErr.zeroCol, some VErr.dupCol, some VErr.unusedPrim] := by
  decide +kernel

def goodPots : List (Pot String) :=
  [{ am := [1], ptype := "scalar_ecp", rexp := [2], gexp := ["1.0"], coefs := [["0.0"]] },
   { am := [0], ptype := "scalar_ecp", rexp := [2, 2], gexp := ["1.0", "2.0"], coefs := [["3.0", "-1.0"]] }]
def p1 : List (Pot String) := goodPots ++ [{ am := [0], ptype := "scalar_ecp", rexp := [2], gexp := ["1.0"], coefs := [["1.0"]] }]
def p2 : List (Pot String) := [{ am := [0], ptype := "scalar_ecp", rexp := [2, 2], gexp := ["1.0", "2.0"], coefs := [["0.0", "0.0"]] }]
def p3 : List (Pot String) := [{ am := [0], ptype := "scalar_ecp", rexp := [2, 2], gexp := ["1.0"], coefs := [["1.0", "2.0"]] }]

/-- the all-zero single-term potential of the highest momentum is accepted (the rule's exception); three mutations are not -/
example : [goodPots, p1, p2, p3].map (validatePots numVal) = [none, some VErr.ecpDupAm, some VErr.ecpZeroCol, some VErr.ecpLen] := by
  decide +kernel

end BSE.Props.C18
