import BSEGen.Cli
import BSEGen.Api
/-! # C16 — the command line prints what the Python API returns

Statements about the wiring of the `bse` tool, over tables regenerated from `cli/bse_cli.py`,
`cli/bse_handlers.py`, `cli/check.py` and `api.py` on every run. -/
namespace BSE.Props.C16
open BSE.Gen.Cli

def dests (sub : String) : List String :=
  ((subcommands.find? (·.1 == sub)).map (·.2.map (·.1))).getD [] ++ globalArgs.map (·.1) ++ ["subcmd"]

/-- **every sub-command has a handler and every handler belongs to a sub-command** -/
theorem cli_handlers_total :
    (∀ s ∈ subcommands.map (·.1), s ∈ handlerMap.map (·.1)) ∧ (∀ s ∈ handlerMap.map (·.1), s ∈ subcommands.map (·.1))
      ∧ (handlerMap.map (·.1)).Nodup := by decide

/-- **every `args.x` a handler reads is defined** by its sub-parser or by the global options -/
theorem cli_dests_defined :
    ∀ h ∈ handlerMap, ∀ x ∈ ((handlerReads.find? (·.1 == h.2)).map (·.2)).getD [], x ∈ dests h.1 := by decide

/-- **get-basis forwards every parameter of `get_basis`, each exactly once** -/
theorem cli_forwards_all_get_basis : getBasisWiring.map (·.1) = BSE.Gen.Api.getBasisParams := by decide

/-- … and from the option that carries it (diffuse to diffuse, steep to steep, header = not noheader) -/
theorem cli_get_basis_sources :
    getBasisWiring = [("name", "args.basis"), ("elements", "args.elements"), ("version", "args.version"), ("fmt", "args.fmt"),
      ("uncontract_general", "args.unc_gen"), ("uncontract_spdf", "args.unc_spdf"), ("uncontract_segmented", "args.unc_seg"),
      ("remove_free_primitives", "args.rm_free"), ("make_general", "args.make_gen"), ("optimize_general", "args.opt_gen"),
      ("augment_diffuse", "args.aug_diffuse"), ("augment_steep", "args.aug_steep"), ("get_aux", "args.get_aux"),
      ("data_dir", "args.data_dir"), ("header", "not args.noheader")] := by decide

/-- **get-refs forwards every parameter of `get_references`** -/
theorem cli_forwards_all_get_refs :
    getRefsWiring.map (·.1) = getRefsParams
      ∧ getRefsWiring.map (·.2) = ["args.basis", "args.elements", "args.version", "args.reffmt", "args.data_dir"] := by decide

/-- the value an absent option passes on: `store_true` ↦ False, explicit default, else None -/
def cliDefault (a : String × Bool × String × String × String) : String :=
  if a.2.2.1 == "store_true" then "False" else if a.2.2.2.2 == "" then "None" else a.2.2.2.2

def getBasisArgs : List (String × Bool × String × String × String) :=
  ((subcommands.find? (·.1 == "get-basis")).map (·.2)).getD [] ++ globalArgs

def apiDefault (param : String) : Option String :=
  let ps := BSE.Gen.Api.getBasisParams
  let ds := BSE.Gen.Api.getBasisDefaults
  let i := ps.findIdx (· == param)
  if i < ps.length - ds.length then none else ds[i - (ps.length - ds.length)]?

/-- **an option that is not given passes the API's own default**: for every optional parameter of
`get_basis`, the default of the command-line option that feeds it equals the default of the API
(`header = not noheader = not False = True`) -/
theorem cli_defaults_agree :
    ∀ w ∈ getBasisWiring, apiDefault w.1 = none ∨
      (w.2 = "not args.noheader" ∧ apiDefault w.1 = some "True"
          ∧ (getBasisArgs.find? (·.1 == "noheader")).map cliDefault = some "False")
      ∨ (∃ a ∈ getBasisArgs, w.2 = "args." ++ a.1 ∧ apiDefault w.1 = some (cliDefault a)) := by decide

/-- **names, formats, roles and families are validated and normalised before any handler runs** -/
theorem cli_normalisers :
    normalisers = [("data_dir", "_cli_check_data_dir(args.data_dir)"), ("basis", "_cli_check_basis(args.basis, args.data_dir)"),
      ("basis1", "_cli_check_basis(args.basis1, args.data_dir)"), ("basis2", "_cli_check_basis(args.basis2, args.data_dir)"),
      ("fmt", "_cli_check_format(args.fmt)"), ("reffmt", "_cli_check_ref_format(args.reffmt)"), ("role", "_cli_check_role(args.role)"),
      ("family", "_cli_check_family(args.family, args.data_dir)"), ("readfmt1", "_cli_check_readfmt(args.readfmt1)"),
      ("readfmt2", "_cli_check_readfmt(args.readfmt2)")] := by decide


/-! ### every handler: which library call produces the value, with which arguments

`handlerCalls` is regenerated from the handlers' syntax trees with the positional arguments bound to the parameter names of
the callee (taken from the callee's own `def`), so "forwards the data directory" is a statement about the parameter
`data_dir` of the function called, not about argument positions. -/

def hasPrefix (p s : String) : Bool := p.toList.isPrefixOf s.toList

/-- the option-carried arguments of the library calls of the handler of a sub-command -/
def wiringOf (sub : String) : List (String × List (String × String)) :=
  match handlerMap.find? (·.1 == sub) with
  | none => []
  | some (_, h) =>
    (((handlerCalls.find? (·.1 == h)).map (·.2)).getD []).map fun c => (c.1, c.2.filter (fun kv => hasPrefix "args." kv.2 || hasPrefix "not args." kv.2))

/-- **the value printed is the value of the API call itself** for the sub-commands that return data of one API function:
the whole handler is `return api.f(...)` -/
theorem cli_returns_the_api_value :
    ∀ p ∈ [("get-basis", "api.get_basis"), ("get-refs", "api.get_references"), ("get-notes", "api.get_basis_notes"),
            ("get-family", "api.get_basis_family"), ("get-family-notes", "api.get_family_notes"), ("get-data-dir", "api.get_data_dir")],
      ((handlerMap.find? (·.1 == p.1)).bind fun sh => (handlerReturnsCall.find? (·.1 == sh.2)).map (·.2)) = some (some p.2) := by decide

/-- **same basis, format, elements, version, role, family, files and data directory**: each handler hands the API exactly
the (normalised) option values, each to the parameter of that meaning -/
theorem cli_calls_forward :
    wiringOf "get-notes" = [("api.get_basis_notes", [("name", "args.basis"), ("data_dir", "args.data_dir")])]
    ∧ wiringOf "get-family" = [("api.get_basis_family", [("basis_name", "args.basis"), ("data_dir", "args.data_dir")])]
    ∧ wiringOf "get-family-notes" = [("api.get_family_notes", [("family", "args.family"), ("data_dir", "args.data_dir")])]
    ∧ wiringOf "lookup-by-role" = [("api.lookup_basis_by_role", [("primary_basis", "args.basis"), ("role", "args.role"), ("data_dir", "args.data_dir")])]
    ∧ wiringOf "get-info" = [("api.get_metadata", [("data_dir", "args.data_dir")])]
    ∧ wiringOf "get-versions" = [("api.get_metadata", [("data_dir", "args.data_dir")])]
    ∧ wiringOf "list-families" = [("api.get_families", [("data_dir", "args.data_dir")])]
    ∧ wiringOf "list-basis-sets" = [("api.filter_basis_sets", [("substr", "args.substr"), ("family", "args.family"), ("role", "args.role"),
          ("elements", "args.elements"), ("data_dir", "args.data_dir")])]
    ∧ wiringOf "convert-basis" = [("convert.convert_formatted_basis_file", [("file_path_in", "args.input_file"), ("file_path_out", "args.output_file"),
          ("in_fmt", "args.in_fmt"), ("out_fmt", "args.out_fmt"), ("make_gen", "args.make_gen")])]
    ∧ wiringOf "create-bundle" = [("bundle.create_bundle", [("outfile", "args.bundle_file"), ("fmt", "args.fmt"), ("reffmt", "args.reffmt"),
          ("archive_type", "args.archive_type"), ("data_dir", "args.data_dir")])]
    ∧ wiringOf "autoaux-basis" = [("readers.read_formatted_basis_file", [("file_path", "args.input_file"), ("basis_fmt", "args.in_fmt")]),
          ("manip.autoaux_basis", []), ("writers.write_formatted_basis_file", [("outfile_path", "args.output_file"), ("basis_fmt", "args.out_fmt")])]
    ∧ wiringOf "autoabs-basis" = [("readers.read_formatted_basis_file", [("file_path", "args.input_file"), ("basis_fmt", "args.in_fmt")]),
          ("manip.autoabs_basis", []), ("writers.write_formatted_basis_file", [("outfile_path", "args.output_file"), ("basis_fmt", "args.out_fmt")])] := by
  refine ⟨?_, ?_, ?_, ?_, ?_, ?_, ?_, ?_, ?_, ?_, ?_, ?_⟩ <;> decide +kernel

/-- **no handler that takes `--data-dir` into account forgets it**: whenever a handler calls an `api` / `bundle` function with
option values at all, the data directory is among them (a call that dropped it would silently answer from the shipped store) -/
theorem cli_data_dir_forwarded :
    ∀ h ∈ handlerCalls, ∀ c ∈ h.2, (hasPrefix "api." c.1 || hasPrefix "bundle." c.1) = true → c.2.isEmpty = false →
      c.2.contains ("data_dir", "args.data_dir") = true := by
  have h : (handlerCalls.all fun h => h.2.all fun c =>
      !(hasPrefix "api." c.1 || hasPrefix "bundle." c.1) || c.2.isEmpty || c.2.contains ("data_dir", "args.data_dir")) = true := by decide +kernel
  intro hh hhm c hc h1 h2
  have := List.all_eq_true.1 (List.all_eq_true.1 h hh hhm) c hc
  simp only [h1, h2, Bool.not_true, Bool.false_or] at this
  exact this

example : dests "get-basis" ≠ [] ∧ apiDefault "header" = some "True" ∧ apiDefault "name" = none := by decide

end BSE.Props.C16
