import BSEGen.Cli
import BSEGen.Api
/-! # C16 — the command line prints what the Python API returns

Statements about the wiring of the `bse` tool, over tables regenerated from `cli/bse_cli.py`,
`cli/bse_handlers.py`, `cli/check.py` and `api.py` on every run. -/
namespace BSE.Props.C16
open BSE.Gen.Cli

def dests (sub : String) : List String :=
  ((subcommands.find? (·.1 == sub)).map (·.2.map (·.1))).getD [] ++ globalArgs.map (·.1) ++ ["subcmd"]

/-- **every sub-command has a handler and every handler belongs to a sub-command** -/
theorem cli_handlers_total :
    (∀ s ∈ subcommands.map (·.1), s ∈ handlerMap.map (·.1)) ∧ (∀ s ∈ handlerMap.map (·.1), s ∈ subcommands.map (·.1))
      ∧ (handlerMap.map (·.1)).Nodup := by decide

/-- **every `args.x` a handler reads is defined** by its sub-parser or by the global options -/
theorem cli_dests_defined :
    ∀ h ∈ handlerMap, ∀ x ∈ ((handlerReads.find? (·.1 == h.2)).map (·.2)).getD [], x ∈ dests h.1 := by decide

/-- **get-basis forwards every parameter of `get_basis`, each exactly once** -/
theorem cli_forwards_all_get_basis : getBasisWiring.map (·.1) = BSE.Gen.Api.getBasisParams := by decide

/-- … and from the option that carries it (diffuse to diffuse, steep to steep, header = not noheader) -/
theorem cli_get_basis_sources :
    getBasisWiring = [("name", "args.basis"), ("elements", "args.elements"), ("version", "args.version"), ("fmt", "args.fmt"),
      ("uncontract_general", "args.unc_gen"), ("uncontract_spdf", "args.unc_spdf"), ("uncontract_segmented", "args.unc_seg"),
      ("remove_free_primitives", "args.rm_free"), ("make_general", "args.make_gen"), ("optimize_general", "args.opt_gen"),
      ("augment_diffuse", "args.aug_diffuse"), ("augment_steep", "args.aug_steep"), ("get_aux", "args.get_aux"),
      ("data_dir", "args.data_dir"), ("header", "not args.noheader")] := by decide

/-- **get-refs forwards every parameter of `get_references`** -/
theorem cli_forwards_all_get_refs :
    getRefsWiring.map (·.1) = getRefsParams
      ∧ getRefsWiring.map (·.2) = ["args.basis", "args.elements", "args.version", "args.reffmt", "args.data_dir"] := by decide

/-- the value an absent option passes on: `store_true` ↦ False, explicit default, else None -/
def cliDefault (a : String × Bool × String × String × String) : String :=
  if a.2.2.1 == "store_true" then "False" else if a.2.2.2.2 == "" then "None" else a.2.2.2.2

def getBasisArgs : List (String × Bool × String × String × String) :=
  ((subcommands.find? (·.1 == "get-basis")).map (·.2)).getD [] ++ globalArgs

def apiDefault (param : String) : Option String :=
  let ps := BSE.Gen.Api.getBasisParams
  let ds := BSE.Gen.Api.getBasisDefaults
  let i := ps.findIdx (· == param)
  if i < ps.length - ds.length then none else ds[i - (ps.length - ds.length)]?

/-- **an option that is not given passes the API's own default**: for every optional parameter of
`get_basis`, the default of the command-line option that feeds it equals the default of the API
(`header = not noheader = not False = True`) -/
theorem cli_defaults_agree :
    ∀ w ∈ getBasisWiring, apiDefault w.1 = none ∨
      (w.2 = "not args.noheader" ∧ apiDefault w.1 = some "True"
          ∧ (getBasisArgs.find? (·.1 == "noheader")).map cliDefault = some "False")
      ∨ (∃ a ∈ getBasisArgs, w.2 = "args." ++ a.1 ∧ apiDefault w.1 = some (cliDefault a)) := by decide

/-- **names, formats, roles and families are validated and normalised before any handler runs** -/
theorem cli_normalisers :
    normalisers = [("data_dir", "_cli_check_data_dir(args.data_dir)"), ("basis", "_cli_check_basis(args.basis, args.data_dir)"),
      ("basis1", "_cli_check_basis(args.basis1, args.data_dir)"), ("basis2", "_cli_check_basis(args.basis2, args.data_dir)"),
      ("fmt", "_cli_check_format(args.fmt)"), ("reffmt", "_cli_check_ref_format(args.reffmt)"), ("role", "_cli_check_role(args.role)"),
      ("family", "_cli_check_family(args.family, args.data_dir)"), ("readfmt1", "_cli_check_readfmt(args.readfmt1)"),
      ("readfmt2", "_cli_check_readfmt(args.readfmt2)")] := by decide

example : dests "get-basis" ≠ [] ∧ apiDefault "header" = some "True" ∧ apiDefault "name" = none := by decide

end BSE.Props.C16
