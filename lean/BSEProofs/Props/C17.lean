import BSEModel.AddBasis
/-! # C17 — adding a basis to a data directory stores exactly it and overwrites nothing -/
namespace BSE.Props.C17
open BSE BSE.AddBasis

def getFile (fs : Files) (p : String) : Option J := (fs.find? (·.1 == p)).map (·.2)

theorem getFile_append_of_exists (fs : Files) (p q : String) (j : J) (h : exists_ fs p = true) :
    getFile (fs ++ [(q, j)]) p = getFile fs p := by
  unfold getFile
  rw [List.find?_append]
  have : (fs.find? (·.1 == p)).isSome = true := by
    simp only [exists_, List.any_eq_true] at h
    obtain ⟨x, hx, hp⟩ := h
    exact List.find?_isSome.2 ⟨x, hx, hp⟩
  cases hf : fs.find? (·.1 == p) with
  | none => simp [hf] at this
  | some v => simp

theorem exists_of_getFile (fs : Files) (p : String) (v : J) (h : getFile fs p = some v) : exists_ fs p = true := by
  unfold getFile at h
  cases hf : fs.find? (·.1 == p) with
  | none => simp [hf] at h
  | some kv =>
    have := List.mem_of_find?_eq_some hf
    have hk := List.find?_some hf
    exact List.any_eq_true.2 ⟨kv, this, hk⟩

theorem getFile_map_other (fs : Files) (p q : String) (j : J) (hne : p ≠ q) :
    getFile (fs.map (fun kv => if kv.1 == q then (q, j) else kv)) p = getFile fs p := by
  unfold getFile
  induction fs with
  | nil => rfl
  | cons kv rest ih =>
    simp only [List.map_cons, List.find?_cons]
    by_cases hq : (kv.1 == q) = true
    · have hkq : kv.1 = q := by simpa using hq
      have : (q == p) = false := by simpa using (Ne.symm hne)
      have h2 : (kv.1 == p) = false := by rw [hkq]; exact this
      simp only [hq, if_true, this, h2]
      exact ih
    · simp only [hq, Bool.false_eq_true, if_false]
      by_cases hp : (kv.1 == p) = true
      · simp [hp]
      · simp only [hp]; exact ih

theorem getFile_put_other (fs : Files) (p q : String) (j : J) (hne : p ≠ q) : getFile (put fs q j) p = getFile fs p := by
  unfold put
  split
  · exact getFile_map_other fs p q j hne
  · unfold getFile
    rw [List.find?_append]
    have : (q == p) = false := by simpa using (Ne.symm hne)
    cases hf : fs.find? (·.1 == p) with
    | none => simp [List.find?_cons, this]
    | some v => simp

theorem commit_monotone (fs : Files) (pl : Plan) (p : String) (v : J) (hp : p ≠ "METADATA.json")
    (h : getFile fs p = some v) : getFile (commit fs pl).1 p = some v := by
  have hex := exists_of_getFile fs p v h
  have e1 : getFile (fs ++ [(pl.elemRel, pl.elemData)]) p = some v := by
    rw [getFile_append_of_exists fs p _ _ hex]; exact h
  have e2 : getFile (fs ++ [(pl.elemRel, pl.elemData)] ++ [(pl.tableRel, pl.tableData)]) p = some v := by
    rw [getFile_append_of_exists _ p _ _ (exists_of_getFile _ p v e1)]; exact e1
  have e3 : getFile (if exists_ (fs ++ [(pl.elemRel, pl.elemData)] ++ [(pl.tableRel, pl.tableData)]) pl.metaRel
      then fs ++ [(pl.elemRel, pl.elemData)] ++ [(pl.tableRel, pl.tableData)]
      else fs ++ [(pl.elemRel, pl.elemData)] ++ [(pl.tableRel, pl.tableData)] ++ [(pl.metaRel, pl.metaData)]) p = some v := by
    split
    · exact e2
    · rw [getFile_append_of_exists _ p _ _ (exists_of_getFile _ p v e2)]; exact e2
  unfold commit
  simp only
  split
  · exact e3
  · rw [getFile_put_other _ p "METADATA.json" _ hp]; exact e3

/-- **nothing is overwritten**: whatever `add_from_components` does — succeed or raise at any point —
every file that existed before, other than the index `METADATA.json`, has the same content afterwards -/
theorem add_monotone (fs : Files) (r : Req) (p : String) (v : J) (hp : p ≠ "METADATA.json")
    (h : getFile fs p = some v) : getFile (addFromComponents fs r).1 p = some v := by
  unfold addFromComponents
  cases hpc : precheck fs r with
  | error e => exact h
  | ok pl => exact commit_monotone fs pl p v hp h

/-- **a refused call leaves the directory unchanged** (missing component, no common element, name taken
by another file base, element or table file already there): nothing is written before the checks pass -/
theorem add_refused_noop (fs : Files) (r : Req) (e : PyErr) (h : precheck fs r = .error e) :
    addFromComponents fs r = (fs, some e) := by
  simp [addFromComponents, h]

/-- **an element or table file that exists is never replaced**: the checks refuse -/
theorem add_refuses_existing (fs : Files) (r : Req)
    (hex : exists_ fs (r.fileBase ++ "." ++ r.version ++ ".table.json") = true
      ∨ exists_ fs (joinPath r.subdir (r.fileBase ++ "." ++ r.version ++ ".element.json")) = true) :
    ∃ e, precheck fs r = .error e := by
  unfold precheck
  split
  · exact ⟨_, rfl⟩
  · split
    · exact ⟨_, rfl⟩
    · simp only
      split
      · exact ⟨_, rfl⟩
      · split
        · exact ⟨_, rfl⟩
        · split
          · exact ⟨_, rfl⟩
          · split
            · exact ⟨_, rfl⟩
            · split
              · exact ⟨_, rfl⟩
              · rename_i h1 h2
                rcases hex with h | h
                · exact absurd h h2
                · exact absurd h h1

/-- **a file base that already belongs to a basis set of another name is refused before any write** (its metadata file is
kept as it is, so the new version would otherwise be filed under the other name and the given name would not be retrievable) -/
theorem add_refuses_foreign_file_base (fs : Files) (r : Req) (h : baseClash fs r = true) : ∃ e, precheck fs r = .error e := by
  unfold precheck
  split
  · exact ⟨_, rfl⟩
  · split
    · exact ⟨_, rfl⟩
    · simp only
      split
      · exact ⟨_, rfl⟩
      · split
        · exact ⟨_, rfl⟩
        · simp [h]

/-- a name that the index already gives to another file base is refused before any write -/
theorem add_refuses_taken_name (fs : Files) (r : Req) (h : nameClash fs r = true) : ∃ e, precheck fs r = .error e := by
  unfold precheck
  split
  · exact ⟨_, rfl⟩
  · split
    · exact ⟨_, rfl⟩
    · simp only
      split
      · exact ⟨_, rfl⟩
      · simp [h]

/-- no component files ⇒ refused, directory unchanged -/
theorem add_needs_components (fs : Files) (r : Req) (h : r.comps = []) : addFromComponents fs r = (fs, some .runtime) := by
  simp [addFromComponents, precheck, h]

/-- sequences of additions: by induction, the monotonicity holds after any number of steps -/
theorem add_sequence_monotone (fs : Files) (rs : List Req) (p : String) (v : J) (hp : p ≠ "METADATA.json")
    (h : getFile fs p = some v) : getFile (rs.foldl (fun s r => (addFromComponents s r).1) fs) p = some v := by
  induction rs generalizing fs with
  | nil => exact h
  | cons r rest ih => exact ih _ (add_monotone fs r p v hp h)

/-! ## the planned files are there afterwards -/

open BSE.Index in
theorem getFile_append_new (fs : Files) (q : String) (j : J) (h : exists_ fs q = false) :
    getFile (fs ++ [(q, j)]) q = some j := by
  unfold getFile
  rw [List.find?_append]
  have : fs.find? (·.1 == q) = none := by
    apply List.find?_eq_none.2
    intro x hx hq
    have : exists_ fs q = true := List.any_eq_true.2 ⟨x, hx, hq⟩
    rw [h] at this; cases this
  simp [this]

theorem getFile_append_other (fs : Files) (p q : String) (j : J) (hne : p ≠ q) :
    getFile (fs ++ [(q, j)]) p = getFile fs p := by
  unfold getFile
  rw [List.find?_append]
  have : (q == p) = false := by simpa using (Ne.symm hne)
  cases hf : fs.find? (·.1 == p) with
  | none => simp [List.find?_cons, this]
  | some v => simp

theorem exists_append (fs : Files) (p q : String) (j : J) : exists_ (fs ++ [(q, j)]) p = (exists_ fs p || q == p) := by
  simp [exists_]

/-- the directory after the three writes, before the index is regenerated -/
def written (fs : Files) (pl : Plan) : Files :=
  if exists_ (fs ++ [(pl.elemRel, pl.elemData)] ++ [(pl.tableRel, pl.tableData)]) pl.metaRel
  then fs ++ [(pl.elemRel, pl.elemData)] ++ [(pl.tableRel, pl.tableData)]
  else fs ++ [(pl.elemRel, pl.elemData)] ++ [(pl.tableRel, pl.tableData)] ++ [(pl.metaRel, pl.metaData)]

open BSE.Index in
theorem commit_getFile (fs : Files) (pl : Plan) (p : String) (hp : p ≠ "METADATA.json") :
    getFile (commit fs pl).1 p = getFile (written fs pl) p := by
  unfold commit written
  simp only
  split
  · rfl
  · rw [getFile_put_other _ p "METADATA.json" _ hp]

/-- **a successful addition leaves exactly the planned element and table files behind** (and the planned metadata file
when the basis had none): reading those paths in the new directory gives the planned contents -/
theorem commit_writes_planned (fs : Files) (pl : Plan)
    (he : exists_ fs pl.elemRel = false) (ht : exists_ fs pl.tableRel = false)
    (hd : pl.elemRel ≠ pl.tableRel ∧ pl.elemRel ≠ pl.metaRel ∧ pl.tableRel ≠ pl.metaRel)
    (hm : pl.elemRel ≠ "METADATA.json" ∧ pl.tableRel ≠ "METADATA.json" ∧ pl.metaRel ≠ "METADATA.json") :
    getFile (commit fs pl).1 pl.elemRel = some pl.elemData
    ∧ getFile (commit fs pl).1 pl.tableRel = some pl.tableData
    ∧ (exists_ fs pl.metaRel = false → getFile (commit fs pl).1 pl.metaRel = some pl.metaData) := by
  have e2 : getFile (fs ++ [(pl.elemRel, pl.elemData)] ++ [(pl.tableRel, pl.tableData)]) pl.elemRel = some pl.elemData := by
    rw [getFile_append_other _ _ _ _ hd.1, getFile_append_new fs _ _ he]
  have t2 : getFile (fs ++ [(pl.elemRel, pl.elemData)] ++ [(pl.tableRel, pl.tableData)]) pl.tableRel = some pl.tableData := by
    apply getFile_append_new
    rw [exists_append, ht]
    simpa using hd.1
  rw [commit_getFile fs pl _ hm.1, commit_getFile fs pl _ hm.2.1, commit_getFile fs pl _ hm.2.2]
  refine ⟨?_, ?_, ?_⟩
  · unfold written
    split
    · exact e2
    · rw [getFile_append_other _ _ _ _ hd.2.1]; exact e2
  · unfold written
    split
    · exact t2
    · rw [getFile_append_other _ _ _ _ hd.2.2]; exact t2
  · intro hmeta
    have hm2 : exists_ (fs ++ [(pl.elemRel, pl.elemData)] ++ [(pl.tableRel, pl.tableData)]) pl.metaRel = false := by
      rw [exists_append, exists_append, hmeta]
      have h1 : (pl.elemRel == pl.metaRel) = false := by simpa using hd.2.1
      have h2 : (pl.tableRel == pl.metaRel) = false := by simpa using hd.2.2
      simp [h1, h2]
    unfold written
    rw [if_neg (by rw [hm2]; simp)]
    exact getFile_append_new _ _ _ hm2

/-- … through `add_from_components`: when it does not raise, the element and table files it planned are there, and they
list exactly the elements common to all components, each pointing at all the components in the order given -/
theorem add_writes_planned (fs : Files) (r : Req) (pl : Plan) (hpre : precheck fs r = .ok pl)
    (he : exists_ fs pl.elemRel = false) (ht : exists_ fs pl.tableRel = false)
    (hd : pl.elemRel ≠ pl.tableRel ∧ pl.elemRel ≠ pl.metaRel ∧ pl.tableRel ≠ pl.metaRel)
    (hm : pl.elemRel ≠ "METADATA.json" ∧ pl.tableRel ≠ "METADATA.json" ∧ pl.metaRel ≠ "METADATA.json") :
    getFile (addFromComponents fs r).1 pl.elemRel = some pl.elemData
    ∧ getFile (addFromComponents fs r).1 pl.tableRel = some pl.tableData := by
  unfold addFromComponents
  rw [hpre]
  exact ⟨(commit_writes_planned fs pl he ht hd hm).1, (commit_writes_planned fs pl he ht hd hm).2.1⟩

/-! ## add_basis_from_dict -/

/-- **nothing is overwritten by `add_basis_from_dict`** either — whether it succeeds or raises at any point -/
theorem addDict_monotone (expand : String → Except PyErr (List String)) (valid : Dict → Bool) (fs : Files) (bs : Dict)
    (r : DictReq) (refs : RefSpec) (p : String) (v : J) (hp : p ≠ "METADATA.json") (h : getFile fs p = some v) :
    getFile (addBasisFromDict expand valid fs bs r refs).1 p = some v := by
  unfold addBasisFromDict
  cases hc : componentOf expand bs r refs with
  | error e => exact h
  | ok comp =>
    simp only
    by_cases hv : valid comp = true
    · simp only [hv, Bool.not_true, Bool.false_eq_true, if_false]
      by_cases hex : exists_ fs r.compRel = true
      · simp only [hex, if_true]; exact h
      · simp only [hex, Bool.false_eq_true, if_false]
        apply add_monotone _ _ p v hp
        rw [getFile_append_of_exists fs p _ _ (exists_of_getFile fs p v h)]
        exact h
    · simp only [hv, Bool.not_false, if_true]; exact h

/-- **input that fails validation leaves the directory exactly as it was** -/
theorem addDict_invalid_noop (expand : String → Except PyErr (List String)) (valid : Dict → Bool) (fs : Files) (bs : Dict)
    (r : DictReq) (refs : RefSpec) (comp : Dict) (hc : componentOf expand bs r refs = .ok comp) (hv : valid comp = false) :
    addBasisFromDict expand valid fs bs r refs = (fs, some .runtime) := by
  simp [addBasisFromDict, hc, hv]

/-- a reference map that names an element the data does not have, names one twice, or cannot be expanded: refused, nothing written -/
theorem addDict_bad_refs_noop (expand : String → Except PyErr (List String)) (valid : Dict → Bool) (fs : Files) (bs : Dict)
    (r : DictReq) (refs : RefSpec) (e : PyErr) (hc : componentOf expand bs r refs = .error e) :
    addBasisFromDict expand valid fs bs r refs = (fs, some e) := by
  simp [addBasisFromDict, hc]

/-- **an existing component file is never replaced**: the call is refused and the directory is unchanged -/
theorem addDict_refuses_existing_component (expand : String → Except PyErr (List String)) (valid : Dict → Bool) (fs : Files)
    (bs : Dict) (r : DictReq) (refs : RefSpec) (hex : exists_ fs r.compRel = true) :
    (addBasisFromDict expand valid fs bs r refs).1 = fs ∧ (addBasisFromDict expand valid fs bs r refs).2.isSome = true := by
  unfold addBasisFromDict
  cases hc : componentOf expand bs r refs with
  | error e => simp
  | ok comp =>
    by_cases hv : valid comp = true
    · simp [hv, hex]
    · simp [hv]

/-- **what is stored is the validated dictionary**: once validation and the existence check have passed, the component
file holds exactly the dictionary that was validated — whatever `add_from_components` does afterwards -/
theorem addDict_component_stored (expand : String → Except PyErr (List String)) (valid : Dict → Bool) (fs : Files)
    (bs : Dict) (r : DictReq) (refs : RefSpec) (comp : Dict) (hc : componentOf expand bs r refs = .ok comp)
    (hv : valid comp = true) (hex : exists_ fs r.compRel = false) (hm : r.compRel ≠ "METADATA.json") :
    getFile (addBasisFromDict expand valid fs bs r refs).1 r.compRel = some (.obj comp) := by
  simp only [addBasisFromDict, hc, hv, hex, Bool.not_true, Bool.false_eq_true, if_false]
  exact add_monotone _ _ _ _ hm (getFile_append_new fs r.compRel (.obj comp) hex)

/-! the validated dictionary is the caller's data with only the reference lists (and the two description fields) set -/

/-- an element entry without its reference list -/
def stripRefs : J → J
  | .obj e => .obj (Dict.erase e "references")
  | j => j

theorem erase_set (e : Dict) (k : String) (v : J) : Dict.erase (Dict.set e k v) k = Dict.erase e k := by
  induction e with
  | nil => simp [Dict.set, Dict.erase]
  | cons kv rest ih =>
    obtain ⟨k0, v0⟩ := kv
    unfold Dict.set
    by_cases h : (k0 == k) = true
    · simp only [h, if_true]
      have hk : k0 = k := by simpa using h
      simp [Dict.erase, List.filter_cons, hk]
    · simp only [h, Bool.false_eq_true, if_false]
      unfold Dict.erase at ih ⊢
      simp only [List.filter_cons]
      rw [ih]

theorem strip_setRefs (els els' : Dict) (el : String) (v : J) (h : setRefs els el v = .ok els') :
    els'.map (fun kv => (kv.1, stripRefs kv.2)) = els.map (fun kv => (kv.1, stripRefs kv.2)) := by
  unfold setRefs at h
  cases hg : Dict.get? els el with
  | none => simp [hg] at h
  | some j =>
    cases j with
    | obj e =>
      simp only [hg] at h
      cases h
      induction els with
      | nil => simp [Dict.get?] at hg
      | cons kv rest ih =>
        obtain ⟨k0, v0⟩ := kv
        unfold Dict.set
        by_cases hk : (k0 == el) = true
        · simp only [hk, if_true, List.map_cons]
          have : v0 = .obj e := by
            simp only [Dict.get?, List.find?_cons, hk, Option.map_some, Option.some.injEq] at hg
            exact hg
          subst this
          simp [stripRefs, erase_set]
        · simp only [hk, Bool.false_eq_true, if_false, List.map_cons]
          have hg' : Dict.get? rest el = some (.obj e) := by
            simp only [Dict.get?, List.find?_cons, hk] at hg
            exact hg
          rw [ih hg']
    | null => simp [hg] at h
    | bool _ => simp [hg] at h
    | num _ => simp [hg] at h
    | str _ => simp [hg] at h
    | arr _ => simp [hg] at h

theorem strip_attachAll_aux (l : List (String × J)) (v : J) :
    ∀ (acc : Except PyErr Dict) (els0 out : Dict),
      (∀ d, acc = .ok d → d.map (fun kv => (kv.1, stripRefs kv.2)) = els0.map (fun kv => (kv.1, stripRefs kv.2))) →
      l.foldl (fun acc kv => match acc with
        | .error e => .error e
        | .ok d => setRefs d kv.1 v) acc = .ok out →
      out.map (fun kv => (kv.1, stripRefs kv.2)) = els0.map (fun kv => (kv.1, stripRefs kv.2)) := by
  induction l with
  | nil => intro acc els0 out hacc h; exact hacc out h
  | cons kv rest ih =>
    intro acc els0 out hacc h
    simp only [List.foldl_cons] at h
    refine ih _ els0 out ?_ h
    intro d hd
    cases acc with
    | error e => simp at hd
    | ok d0 =>
      simp only at hd
      rw [strip_setRefs d0 d kv.1 v hd]
      exact hacc d0 rfl

theorem strip_attachAll (els out : Dict) (v : J) (h : attachAll els v = .ok out) :
    out.map (fun kv => (kv.1, stripRefs kv.2)) = els.map (fun kv => (kv.1, stripRefs kv.2)) := by
  unfold attachAll at h
  exact strip_attachAll_aux els v (.ok els) els out (by intro d hd; cases hd; rfl) h

theorem strip_attachAllIn (zs : List String) : ∀ (els out : Dict), attachRefs.attachAllIn els zs = .ok out →
    out.map (fun kv => (kv.1, stripRefs kv.2)) = els.map (fun kv => (kv.1, stripRefs kv.2)) := by
  induction zs with
  | nil => intro els out h; simp [attachRefs.attachAllIn] at h; subst h; rfl
  | cons z rest ih =>
    intro els out h
    unfold attachRefs.attachAllIn at h
    cases hs : setRefs els z (.arr []) with
    | error e => simp [hs] at h
    | ok els' =>
      simp only [hs] at h
      rw [ih els' out h, strip_setRefs els els' z _ hs]

theorem strip_attachGroup (orig : List String) (v : RefVal) (zs : List String) :
    ∀ (st out : Dict × List String), attachGroup orig v zs st = .ok out →
      out.1.map (fun kv => (kv.1, stripRefs kv.2)) = st.1.map (fun kv => (kv.1, stripRefs kv.2)) := by
  induction zs with
  | nil => intro st out h; simp [attachGroup] at h; subst h; rfl
  | cons z rest ih =>
    intro st out h
    obtain ⟨els, done⟩ := st
    unfold attachGroup at h
    split at h
    · cases h
    · split at h
      · cases h
      · cases hs : setRefs els z v.toJ with
        | error e => simp [hs] at h
        | ok els' =>
          simp only [hs] at h
          rw [ih (els', done) out h]
          exact strip_setRefs els els' z _ hs

theorem strip_attachMap (expand : String → Except PyErr (List String)) (orig : List String) (m : List (String × RefVal)) :
    ∀ (st out : Dict × List String), attachMap expand orig m st = .ok out →
      out.1.map (fun kv => (kv.1, stripRefs kv.2)) = st.1.map (fun kv => (kv.1, stripRefs kv.2)) := by
  induction m with
  | nil => intro st out h; simp [attachMap] at h; subst h; rfl
  | cons kv rest ih =>
    intro st out h
    obtain ⟨els, done⟩ := st
    obtain ⟨k, v⟩ := kv
    unfold attachMap at h
    cases he : expand k with
    | error e => simp [he] at h
    | ok zs =>
      simp only [he] at h
      cases hg : attachGroup orig v zs (els, done) with
      | error e => simp [hg] at h
      | ok st' =>
        obtain ⟨els', done'⟩ := st'
        simp only [hg] at h
        rw [ih _ out h]
        exact strip_attachGroup orig v zs (els, done) (els', done') hg

/-- **attaching the references touches nothing but the reference lists**: same elements in the same order, every element
entry identical apart from its `references` key — for every form of the `refs` argument -/
theorem attachRefs_keeps_data (expand : String → Except PyErr (List String)) (els out : Dict) (refs : RefSpec)
    (h : attachRefs expand els refs = .ok out) :
    out.map (fun kv => (kv.1, stripRefs kv.2)) = els.map (fun kv => (kv.1, stripRefs kv.2)) := by
  cases refs with
  | none => exact strip_attachAll els out _ h
  | one k => exact strip_attachAll els out _ h
  | many ks => exact strip_attachAll els out _ h
  | map m =>
    unfold attachRefs at h
    cases hm : attachMap expand (Dict.keys els) m (els, []) with
    | error e => simp [hm] at h
    | ok st =>
      obtain ⟨els', done⟩ := st
      simp only [hm] at h
      rw [strip_attachAllIn _ els' out h]
      exact strip_attachMap expand _ m (els, []) (els', done) hm
  | other => simp [attachRefs] at h

/-- the reference map is honoured: after `setRefs`, the element carries exactly the given list -/
theorem setRefs_get (els els' : Dict) (el : String) (v : J) (h : setRefs els el v = .ok els') :
    ∃ e', Dict.get? els' el = some (.obj e') ∧ Dict.get? e' "references" = some v := by
  have get_set : ∀ (d : Dict) (k : String) (x : J), Dict.get? (Dict.set d k x) k = some x := by
    intro d k x
    induction d with
    | nil => simp [Dict.set, Dict.get?]
    | cons kv rest ih =>
      obtain ⟨k0, v0⟩ := kv
      unfold Dict.set
      by_cases hk : (k0 == k) = true
      · simp [hk, Dict.get?]
      · simp only [hk, Bool.false_eq_true, if_false]
        simp only [Dict.get?, List.find?_cons, hk] at ih ⊢
        exact ih
  unfold setRefs at h
  cases hg : Dict.get? els el with
  | none => simp [hg] at h
  | some j =>
    cases j with
    | obj e =>
      simp only [hg] at h
      cases h
      exact ⟨_, get_set _ _ _, get_set _ _ _⟩
    | null => simp [hg] at h
    | bool _ => simp [hg] at h
    | num _ => simp [hg] at h
    | str _ => simp [hg] at h
    | arr _ => simp [hg] at h

/-- non-vacuity: a two-element dictionary, a reference map naming one element; the other gets the empty list -/
example :
    (attachRefs (fun k => .ok [k]) [("1", .obj [("electron_shells", .arr [])]), ("6", .obj [("ecp_electrons", .num "2")])]
      (.map [("6", .one "ref1")])).toOption.map (fun d => d.map (fun kv => (kv.1, match kv.2 with | .obj e => Dict.keys e | _ => [])))
      = some [("1", ["electron_shells", "references"]), ("6", ["ecp_electrons", "references"])] := by decide

end BSE.Props.C17
