import BSEModel.AddBasis
/-! # C17 — adding a basis to a data directory stores exactly it and overwrites nothing -/
namespace BSE.Props.C17
open BSE BSE.AddBasis

def getFile (fs : Files) (p : String) : Option J := (fs.find? (·.1 == p)).map (·.2)

theorem getFile_append_of_exists (fs : Files) (p q : String) (j : J) (h : exists_ fs p = true) :
    getFile (fs ++ [(q, j)]) p = getFile fs p := by
  unfold getFile
  rw [List.find?_append]
  have : (fs.find? (·.1 == p)).isSome = true := by
    simp only [exists_, List.any_eq_true] at h
    obtain ⟨x, hx, hp⟩ := h
    exact List.find?_isSome.2 ⟨x, hx, hp⟩
  cases hf : fs.find? (·.1 == p) with
  | none => simp [hf] at this
  | some v => simp

theorem exists_of_getFile (fs : Files) (p : String) (v : J) (h : getFile fs p = some v) : exists_ fs p = true := by
  unfold getFile at h
  cases hf : fs.find? (·.1 == p) with
  | none => simp [hf] at h
  | some kv =>
    have := List.mem_of_find?_eq_some hf
    have hk := List.find?_some hf
    exact List.any_eq_true.2 ⟨kv, this, hk⟩

theorem getFile_map_other (fs : Files) (p q : String) (j : J) (hne : p ≠ q) :
    getFile (fs.map (fun kv => if kv.1 == q then (q, j) else kv)) p = getFile fs p := by
  unfold getFile
  induction fs with
  | nil => rfl
  | cons kv rest ih =>
    simp only [List.map_cons, List.find?_cons]
    by_cases hq : (kv.1 == q) = true
    · have hkq : kv.1 = q := by simpa using hq
      have : (q == p) = false := by simpa using (Ne.symm hne)
      have h2 : (kv.1 == p) = false := by rw [hkq]; exact this
      simp only [hq, if_true, this, h2]
      exact ih
    · simp only [hq, Bool.false_eq_true, if_false]
      by_cases hp : (kv.1 == p) = true
      · simp [hp]
      · simp only [hp]; exact ih

theorem getFile_put_other (fs : Files) (p q : String) (j : J) (hne : p ≠ q) : getFile (put fs q j) p = getFile fs p := by
  unfold put
  split
  · exact getFile_map_other fs p q j hne
  · unfold getFile
    rw [List.find?_append]
    have : (q == p) = false := by simpa using (Ne.symm hne)
    cases hf : fs.find? (·.1 == p) with
    | none => simp [List.find?_cons, this]
    | some v => simp

theorem commit_monotone (fs : Files) (pl : Plan) (p : String) (v : J) (hp : p ≠ "METADATA.json")
    (h : getFile fs p = some v) : getFile (commit fs pl).1 p = some v := by
  have hex := exists_of_getFile fs p v h
  have e1 : getFile (fs ++ [(pl.elemRel, pl.elemData)]) p = some v := by
    rw [getFile_append_of_exists fs p _ _ hex]; exact h
  have e2 : getFile (fs ++ [(pl.elemRel, pl.elemData)] ++ [(pl.tableRel, pl.tableData)]) p = some v := by
    rw [getFile_append_of_exists _ p _ _ (exists_of_getFile _ p v e1)]; exact e1
  have e3 : getFile (if exists_ (fs ++ [(pl.elemRel, pl.elemData)] ++ [(pl.tableRel, pl.tableData)]) pl.metaRel
      then fs ++ [(pl.elemRel, pl.elemData)] ++ [(pl.tableRel, pl.tableData)]
      else fs ++ [(pl.elemRel, pl.elemData)] ++ [(pl.tableRel, pl.tableData)] ++ [(pl.metaRel, pl.metaData)]) p = some v := by
    split
    · exact e2
    · rw [getFile_append_of_exists _ p _ _ (exists_of_getFile _ p v e2)]; exact e2
  unfold commit
  simp only
  split
  · exact e3
  · rw [getFile_put_other _ p "METADATA.json" _ hp]; exact e3

/-- **nothing is overwritten**: whatever `add_from_components` does — succeed or raise at any point —
every file that existed before, other than the index `METADATA.json`, has the same content afterwards -/
theorem add_monotone (fs : Files) (r : Req) (p : String) (v : J) (hp : p ≠ "METADATA.json")
    (h : getFile fs p = some v) : getFile (addFromComponents fs r).1 p = some v := by
  unfold addFromComponents
  cases hpc : precheck fs r with
  | error e => exact h
  | ok pl => exact commit_monotone fs pl p v hp h

/-- **a refused call leaves the directory unchanged** (missing component, no common element, name taken
by another file base, element or table file already there): nothing is written before the checks pass -/
theorem add_refused_noop (fs : Files) (r : Req) (e : PyErr) (h : precheck fs r = .error e) :
    addFromComponents fs r = (fs, some e) := by
  simp [addFromComponents, h]

/-- **an element or table file that exists is never replaced**: the checks refuse -/
theorem add_refuses_existing (fs : Files) (r : Req)
    (hex : exists_ fs (r.fileBase ++ "." ++ r.version ++ ".table.json") = true
      ∨ exists_ fs (joinPath r.subdir (r.fileBase ++ "." ++ r.version ++ ".element.json")) = true) :
    ∃ e, precheck fs r = .error e := by
  unfold precheck
  split
  · exact ⟨_, rfl⟩
  · split
    · exact ⟨_, rfl⟩
    · simp only
      split
      · exact ⟨_, rfl⟩
      · split
        · exact ⟨_, rfl⟩
        · split
          · exact ⟨_, rfl⟩
          · split
            · exact ⟨_, rfl⟩
            · rename_i h1 h2
              rcases hex with h | h
              · exact absurd h h2
              · exact absurd h h1

/-- a name that the index already gives to another file base is refused before any write -/
theorem add_refuses_taken_name (fs : Files) (r : Req) (h : nameClash fs r = true) : ∃ e, precheck fs r = .error e := by
  unfold precheck
  split
  · exact ⟨_, rfl⟩
  · split
    · exact ⟨_, rfl⟩
    · simp only
      split
      · exact ⟨_, rfl⟩
      · simp [h]

/-- no component files ⇒ refused, directory unchanged -/
theorem add_needs_components (fs : Files) (r : Req) (h : r.comps = []) : addFromComponents fs r = (fs, some .runtime) := by
  simp [addFromComponents, precheck, h]

/-- sequences of additions: by induction, the monotonicity holds after any number of steps -/
theorem add_sequence_monotone (fs : Files) (rs : List Req) (p : String) (v : J) (hp : p ≠ "METADATA.json")
    (h : getFile fs p = some v) : getFile (rs.foldl (fun s r => (addFromComponents s r).1) fs) p = some v := by
  induction rs generalizing fs with
  | nil => exact h
  | cons r rest ih => exact ih _ (add_monotone fs r p v hp h)

end BSE.Props.C17
