import BSEModel.AddBasis
/-! # C17 — adding a basis to a data directory stores exactly it and overwrites nothing -/
namespace BSE.Props.C17
open BSE BSE.AddBasis

def getFile (fs : Files) (p : String) : Option J := (fs.find? (·.1 == p)).map (·.2)

theorem getFile_append_of_exists (fs : Files) (p q : String) (j : J) (h : exists_ fs p = true) :
    getFile (fs ++ [(q, j)]) p = getFile fs p := by
  unfold getFile
  rw [List.find?_append]
  have : (fs.find? (·.1 == p)).isSome = true := by
    simp only [exists_, List.any_eq_true] at h
    obtain ⟨x, hx, hp⟩ := h
    exact List.find?_isSome.2 ⟨x, hx, hp⟩
  cases hf : fs.find? (·.1 == p) with
  | none => simp [hf] at this
  | some v => simp

theorem exists_of_getFile (fs : Files) (p : String) (v : J) (h : getFile fs p = some v) : exists_ fs p = true := by
  unfold getFile at h
  cases hf : fs.find? (·.1 == p) with
  | none => simp [hf] at h
  | some kv =>
    have := List.mem_of_find?_eq_some hf
    have hk := List.find?_some hf
    exact List.any_eq_true.2 ⟨kv, this, hk⟩

theorem getFile_map_other (fs : Files) (p q : String) (j : J) (hne : p ≠ q) :
    getFile (fs.map (fun kv => if kv.1 == q then (q, j) else kv)) p = getFile fs p := by
  unfold getFile
  induction fs with
  | nil => rfl
  | cons kv rest ih =>
    simp only [List.map_cons, List.find?_cons]
    by_cases hq : (kv.1 == q) = true
    · have hkq : kv.1 = q := by simpa using hq
      have : (q == p) = false := by simpa using (Ne.symm hne)
      have h2 : (kv.1 == p) = false := by rw [hkq]; exact this
      simp only [hq, if_true, this, h2]
      exact ih
    · simp only [hq, Bool.false_eq_true, if_false]
      by_cases hp : (kv.1 == p) = true
      · simp [hp]
      · simp only [hp]; exact ih

theorem getFile_put_other (fs : Files) (p q : String) (j : J) (hne : p ≠ q) : getFile (put fs q j) p = getFile fs p := by
  unfold put
  split
  · exact getFile_map_other fs p q j hne
  · unfold getFile
    rw [List.find?_append]
    have : (q == p) = false := by simpa using (Ne.symm hne)
    cases hf : fs.find? (·.1 == p) with
    | none => simp [List.find?_cons, this]
    | some v => simp

theorem commit_monotone (fs : Files) (pl : Plan) (p : String) (v : J) (hp : p ≠ "METADATA.json")
    (h : getFile fs p = some v) : getFile (commit fs pl).1 p = some v := by
  have hex := exists_of_getFile fs p v h
  have e1 : getFile (fs ++ [(pl.elemRel, pl.elemData)]) p = some v := by
    rw [getFile_append_of_exists fs p _ _ hex]; exact h
  have e2 : getFile (fs ++ [(pl.elemRel, pl.elemData)] ++ [(pl.tableRel, pl.tableData)]) p = some v := by
    rw [getFile_append_of_exists _ p _ _ (exists_of_getFile _ p v e1)]; exact e1
  have e3 : getFile (if exists_ (fs ++ [(pl.elemRel, pl.elemData)] ++ [(pl.tableRel, pl.tableData)]) pl.metaRel
      then fs ++ [(pl.elemRel, pl.elemData)] ++ [(pl.tableRel, pl.tableData)]
      else fs ++ [(pl.elemRel, pl.elemData)] ++ [(pl.tableRel, pl.tableData)] ++ [(pl.metaRel, pl.metaData)]) p = some v := by
    split
    · exact e2
    · rw [getFile_append_of_exists _ p _ _ (exists_of_getFile _ p v e2)]; exact e2
  unfold commit
  simp only
  split
  · exact e3
  · rw [getFile_put_other _ p "METADATA.json" _ hp]; exact e3

/-- **nothing is overwritten**: whatever `add_from_components` does — succeed or raise at any point —
every file that existed before, other than the index `METADATA.json`, has the same content afterwards -/
theorem add_monotone (fs : Files) (r : Req) (p : String) (v : J) (hp : p ≠ "METADATA.json")
    (h : getFile fs p = some v) : getFile (addFromComponents fs r).1 p = some v := by
  unfold addFromComponents
  cases hpc : precheck fs r with
  | error e => exact h
  | ok pl => exact commit_monotone fs pl p v hp h

/-- **a refused call leaves the directory unchanged** (missing component, no common element, name taken
by another file base, element or table file already there): nothing is written before the checks pass -/
theorem add_refused_noop (fs : Files) (r : Req) (e : PyErr) (h : precheck fs r = .error e) :
    addFromComponents fs r = (fs, some e) := by
  simp [addFromComponents, h]

/-- **an element or table file that exists is never replaced**: the checks refuse -/
theorem add_refuses_existing (fs : Files) (r : Req)
    (hex : exists_ fs (r.fileBase ++ "." ++ r.version ++ ".table.json") = true
      ∨ exists_ fs (joinPath r.subdir (r.fileBase ++ "." ++ r.version ++ ".element.json")) = true) :
    ∃ e, precheck fs r = .error e := by
  unfold precheck
  split
  · exact ⟨_, rfl⟩
  · split
    · exact ⟨_, rfl⟩
    · simp only
      split
      · exact ⟨_, rfl⟩
      · split
        · exact ⟨_, rfl⟩
        · split
          · exact ⟨_, rfl⟩
          · split
            · exact ⟨_, rfl⟩
            · rename_i h1 h2
              rcases hex with h | h
              · exact absurd h h2
              · exact absurd h h1

/-- a name that the index already gives to another file base is refused before any write -/
theorem add_refuses_taken_name (fs : Files) (r : Req) (h : nameClash fs r = true) : ∃ e, precheck fs r = .error e := by
  unfold precheck
  split
  · exact ⟨_, rfl⟩
  · split
    · exact ⟨_, rfl⟩
    · simp only
      split
      · exact ⟨_, rfl⟩
      · simp [h]

/-- no component files ⇒ refused, directory unchanged -/
theorem add_needs_components (fs : Files) (r : Req) (h : r.comps = []) : addFromComponents fs r = (fs, some .runtime) := by
  simp [addFromComponents, precheck, h]

/-- sequences of additions: by induction, the monotonicity holds after any number of steps -/
theorem add_sequence_monotone (fs : Files) (rs : List Req) (p : String) (v : J) (hp : p ≠ "METADATA.json")
    (h : getFile fs p = some v) : getFile (rs.foldl (fun s r => (addFromComponents s r).1) fs) p = some v := by
  induction rs generalizing fs with
  | nil => exact h
  | cons r rest ih => exact ih _ (add_monotone fs r p v hp h)

/-! ## the planned files are there afterwards -/

open BSE.Index in
theorem getFile_append_new (fs : Files) (q : String) (j : J) (h : exists_ fs q = false) :
    getFile (fs ++ [(q, j)]) q = some j := by
  unfold getFile
  rw [List.find?_append]
  have : fs.find? (·.1 == q) = none := by
    apply List.find?_eq_none.2
    intro x hx hq
    have : exists_ fs q = true := List.any_eq_true.2 ⟨x, hx, hq⟩
    rw [h] at this; cases this
  simp [this]

theorem getFile_append_other (fs : Files) (p q : String) (j : J) (hne : p ≠ q) :
    getFile (fs ++ [(q, j)]) p = getFile fs p := by
  unfold getFile
  rw [List.find?_append]
  have : (q == p) = false := by simpa using (Ne.symm hne)
  cases hf : fs.find? (·.1 == p) with
  | none => simp [List.find?_cons, this]
  | some v => simp

theorem exists_append (fs : Files) (p q : String) (j : J) : exists_ (fs ++ [(q, j)]) p = (exists_ fs p || q == p) := by
  simp [exists_]

/-- the directory after the three writes, before the index is regenerated -/
def written (fs : Files) (pl : Plan) : Files :=
  if exists_ (fs ++ [(pl.elemRel, pl.elemData)] ++ [(pl.tableRel, pl.tableData)]) pl.metaRel
  then fs ++ [(pl.elemRel, pl.elemData)] ++ [(pl.tableRel, pl.tableData)]
  else fs ++ [(pl.elemRel, pl.elemData)] ++ [(pl.tableRel, pl.tableData)] ++ [(pl.metaRel, pl.metaData)]

open BSE.Index in
theorem commit_getFile (fs : Files) (pl : Plan) (p : String) (hp : p ≠ "METADATA.json") :
    getFile (commit fs pl).1 p = getFile (written fs pl) p := by
  unfold commit written
  simp only
  split
  · rfl
  · rw [getFile_put_other _ p "METADATA.json" _ hp]

/-- **a successful addition leaves exactly the planned element and table files behind** (and the planned metadata file
when the basis had none): reading those paths in the new directory gives the planned contents -/
theorem commit_writes_planned (fs : Files) (pl : Plan)
    (he : exists_ fs pl.elemRel = false) (ht : exists_ fs pl.tableRel = false)
    (hd : pl.elemRel ≠ pl.tableRel ∧ pl.elemRel ≠ pl.metaRel ∧ pl.tableRel ≠ pl.metaRel)
    (hm : pl.elemRel ≠ "METADATA.json" ∧ pl.tableRel ≠ "METADATA.json" ∧ pl.metaRel ≠ "METADATA.json") :
    getFile (commit fs pl).1 pl.elemRel = some pl.elemData
    ∧ getFile (commit fs pl).1 pl.tableRel = some pl.tableData
    ∧ (exists_ fs pl.metaRel = false → getFile (commit fs pl).1 pl.metaRel = some pl.metaData) := by
  have e2 : getFile (fs ++ [(pl.elemRel, pl.elemData)] ++ [(pl.tableRel, pl.tableData)]) pl.elemRel = some pl.elemData := by
    rw [getFile_append_other _ _ _ _ hd.1, getFile_append_new fs _ _ he]
  have t2 : getFile (fs ++ [(pl.elemRel, pl.elemData)] ++ [(pl.tableRel, pl.tableData)]) pl.tableRel = some pl.tableData := by
    apply getFile_append_new
    rw [exists_append, ht]
    simpa using hd.1
  rw [commit_getFile fs pl _ hm.1, commit_getFile fs pl _ hm.2.1, commit_getFile fs pl _ hm.2.2]
  refine ⟨?_, ?_, ?_⟩
  · unfold written
    split
    · exact e2
    · rw [getFile_append_other _ _ _ _ hd.2.1]; exact e2
  · unfold written
    split
    · exact t2
    · rw [getFile_append_other _ _ _ _ hd.2.2]; exact t2
  · intro hmeta
    have hm2 : exists_ (fs ++ [(pl.elemRel, pl.elemData)] ++ [(pl.tableRel, pl.tableData)]) pl.metaRel = false := by
      rw [exists_append, exists_append, hmeta]
      have h1 : (pl.elemRel == pl.metaRel) = false := by simpa using hd.2.1
      have h2 : (pl.tableRel == pl.metaRel) = false := by simpa using hd.2.2
      simp [h1, h2]
    unfold written
    rw [if_neg (by rw [hm2]; simp)]
    exact getFile_append_new _ _ _ hm2

/-- … through `add_from_components`: when it does not raise, the element and table files it planned are there, and they
list exactly the elements common to all components, each pointing at all the components in the order given -/
theorem add_writes_planned (fs : Files) (r : Req) (pl : Plan) (hpre : precheck fs r = .ok pl)
    (he : exists_ fs pl.elemRel = false) (ht : exists_ fs pl.tableRel = false)
    (hd : pl.elemRel ≠ pl.tableRel ∧ pl.elemRel ≠ pl.metaRel ∧ pl.tableRel ≠ pl.metaRel)
    (hm : pl.elemRel ≠ "METADATA.json" ∧ pl.tableRel ≠ "METADATA.json" ∧ pl.metaRel ≠ "METADATA.json") :
    getFile (addFromComponents fs r).1 pl.elemRel = some pl.elemData
    ∧ getFile (addFromComponents fs r).1 pl.tableRel = some pl.tableData := by
  unfold addFromComponents
  rw [hpre]
  exact ⟨(commit_writes_planned fs pl he ht hd hm).1, (commit_writes_planned fs pl he ht hd hm).2.1⟩

end BSE.Props.C17
