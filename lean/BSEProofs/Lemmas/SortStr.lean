import BSEModel.Index
/-! `sorted(set(...))` and `sorted(list)` on strings: membership, order, no repetition / same multiset -/
namespace BSE.SortStr
open BSE.Compose BSE.Index

theorem lt_of_not_lt_ne {x y : String} (h1 : ¬ x < y) (h2 : x ≠ y) : y < x := by
  by_cases h : y < x
  · exact h
  · exact absurd (String.le_antisymm (String.not_lt.1 h) (String.not_lt.1 h1)) h2

theorem mem_insertStr (x y : String) (l : List String) : y ∈ insertStr x l ↔ y = x ∨ y ∈ l := by
  induction l with
  | nil => simp [insertStr]
  | cons a as ih =>
    unfold insertStr
    by_cases h1 : x < a
    · simp [h1]
    · by_cases h2 : x = a
      · subst h2; simp
      · simp only [h1, h2, if_false, List.mem_cons, ih]
        constructor
        · rintro (h | h | h) <;> simp [h]
        · rintro (h | h | h) <;> simp [h]

theorem mem_sortDedupStr (l : List String) (y : String) : y ∈ sortDedupStr l ↔ y ∈ l := by
  induction l with
  | nil => simp [sortDedupStr]
  | cons a as ih =>
    show y ∈ insertStr a (sortDedupStr as) ↔ _
    rw [mem_insertStr, ih]; simp

theorem insertStr_sorted (x : String) (l : List String) (h : l.Pairwise (· < ·)) : (insertStr x l).Pairwise (· < ·) := by
  induction l with
  | nil => simp [insertStr]
  | cons a as ih =>
    obtain ⟨ha, has⟩ := List.pairwise_cons.1 h
    unfold insertStr
    by_cases h1 : x < a
    · simp only [h1, if_true]
      refine List.pairwise_cons.2 ⟨?_, h⟩
      intro z hz
      rcases List.mem_cons.1 hz with rfl | hz
      · exact h1
      · exact String.lt_trans h1 (ha z hz)
    · by_cases h2 : x = a
      · subst h2
        simp only [String.lt_irrefl, if_false, if_true]; exact h
      · simp only [h1, h2, if_false]
        refine List.pairwise_cons.2 ⟨?_, ih has⟩
        intro z hz
        rcases (mem_insertStr x z as).1 hz with rfl | hz
        · exact lt_of_not_lt_ne h1 h2
        · exact ha z hz

theorem sortDedupStr_sorted (l : List String) : (sortDedupStr l).Pairwise (· < ·) := by
  induction l with
  | nil => simp [sortDedupStr]
  | cons a as ih => exact insertStr_sorted a _ ih

theorem sortDedupStr_nodup (l : List String) : (sortDedupStr l).Nodup := by
  have h := sortDedupStr_sorted l
  exact h.imp (fun {a b} hab heq => by subst heq; exact String.lt_irrefl a hab)

theorem insertDup_perm (x : String) (l : List String) : (insertDup x l).Perm (x :: l) := by
  induction l with
  | nil => simp [insertDup]
  | cons a as ih =>
    unfold insertDup
    by_cases h : a < x
    · simp only [h, if_true]
      exact (List.Perm.cons a ih).trans (List.Perm.swap x a as)
    · simp only [h, if_false]; exact List.Perm.refl _

theorem mem_insertDup (x y : String) (l : List String) : y ∈ insertDup x l ↔ y = x ∨ y ∈ l := by
  rw [(insertDup_perm x l).mem_iff]; simp

theorem insertDup_sorted (x : String) (l : List String) (h : l.Pairwise (fun a b => ¬ b < a)) :
    (insertDup x l).Pairwise (fun a b => ¬ b < a) := by
  induction l with
  | nil => simp [insertDup]
  | cons a as ih =>
    obtain ⟨ha, has⟩ := List.pairwise_cons.1 h
    unfold insertDup
    by_cases h1 : a < x
    · simp only [h1, if_true]
      refine List.pairwise_cons.2 ⟨?_, ih has⟩
      intro z hz
      rcases (mem_insertDup x z as).1 hz with rfl | hz
      · exact String.lt_asymm h1
      · exact ha z hz
    · simp only [h1, if_false]
      refine List.pairwise_cons.2 ⟨?_, h⟩
      intro z hz
      rcases List.mem_cons.1 hz with rfl | hz
      · exact h1
      · -- z after a, a not before x: z not before x
        intro hzx
        have hxa : x ≤ a := String.not_lt.1 h1
        have haz : a ≤ z := String.not_lt.1 (ha z hz)
        have hza : z < a := by
          by_cases hh : z < a
          · exact hh
          · have : a ≤ z := String.not_lt.1 hh
            -- z < x ≤ a, so z < a
            exact absurd (String.not_lt.2 (String.le_trans hxa this)) (by simpa using hzx)
        exact (String.not_lt.2 haz) hza

end BSE.SortStr
