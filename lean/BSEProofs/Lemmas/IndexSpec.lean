import BSEModel.Index
import BSEProofs.Lemmas.Dict
import BSEProofs.Lemmas.ComposeSpec

/-! # The index builder lists exactly the table files, each with the elements its composition has -/

namespace BSE.Index
open BSE BSE.Compose

/-- the version string of a table file name `base.ver.table.json` -/
def versionField (t : String) : String := (splitOn '.' (basename t)).getD 1 ""

/-- one step of `versionInfo` -/
def viStep (dir : Dir) (acc : Dict × Option J × Option Dict) (t : String) : Except PyErr (Dict × Option J × Option Dict) := do
  let parts := splitOn '.' (basename t)
  if parts.length ≠ 4 then throw PyErr.value else
  let ver := parts.getD 1 ""
  let bs ← composeTable dir t
  let els ← asObj (← getKey bs "elements")
  let ft ← getKey bs "function_types"
  match acc.2.1 with
  | some ft0 => if !(ft0 == ft) then throw PyErr.runtime
  | none => pure ()
  let rec_ : J := .obj [("file_relpath", .str t), ("revdesc", ← getKey bs "revision_description"),
    ("revdate", ← getKey bs "revision_date"), ("elements", .arr ((sortNum (Dict.keys els)).map .str))]
  pure (Dict.set acc.1 ver rec_, some (acc.2.1.getD ft), some bs)

theorem versionInfo_eq (dir : Dir) (tables : List String) :
    versionInfo dir tables = tables.foldlM (viStep dir) ([], none, none) := rfl

/-- what one step does to the version dictionary: it sets the table's version to a record naming that table -/
theorem viStep_spec (dir : Dir) (acc acc' : Dict × Option J × Option Dict) (t : String) (h : viStep dir acc t = .ok acc') :
    ∃ rec_ : Dict, acc'.1 = Dict.set acc.1 (versionField t) (.obj rec_) ∧ Dict.get? rec_ "file_relpath" = some (.str t)
      ∧ ∃ bs els, composeTable dir t = .ok bs ∧ Dict.get? bs "elements" = some (.obj els)
        ∧ Dict.get? rec_ "elements" = some (.arr ((sortNum (Dict.keys els)).map .str)) := by
  unfold viStep at h
  simp only [bind, Except.bind, pure, Except.pure, throw, throwThe, MonadExceptOf.throw] at h
  split at h
  · cases h
  · cases hc : composeTable dir t with
    | error e => simp [hc] at h
    | ok bs =>
      simp only [hc] at h
      cases hk : getKey bs "elements" with
      | error e => simp [hk] at h
      | ok je =>
        simp only [hk] at h
        cases ho : asObj je with
        | error e => simp [ho] at h
        | ok els =>
          simp only [ho] at h
          cases hf : getKey bs "function_types" with
          | error e => simp [hf] at h
          | ok ft =>
            simp only [hf] at h
            have hje : je = .obj els := by
              cases je <;> simp [asObj] at ho
              subst ho; rfl
            have hget : Dict.get? bs "elements" = some (.obj els) := by
              unfold getKey at hk
              cases hg : Dict.get? bs "elements" with
              | none => simp [hg] at hk
              | some w => simp only [hg, Except.ok.injEq] at hk; rw [hk, hje]
            have hfr : ∀ (rd rv : J), Dict.get? [("file_relpath", J.str t), ("revdesc", rd), ("revdate", rv),
                ("elements", J.arr ((sortNum (Dict.keys els)).map .str))] "file_relpath" = some (.str t) := by
              intro rd rv; simp [Dict.get?]
            have hel : ∀ (rd rv : J), Dict.get? [("file_relpath", J.str t), ("revdesc", rd), ("revdate", rv),
                ("elements", J.arr ((sortNum (Dict.keys els)).map .str))] "elements" = some (.arr ((sortNum (Dict.keys els)).map .str)) := by
              intro rd rv; simp [Dict.get?]
            cases hrd : getKey bs "revision_description" with
            | error e => cases hacc : acc.2.1 <;> simp [hrd, hacc] at h <;> (try split at h) <;> simp_all
            | ok rd =>
              cases hrv : getKey bs "revision_date" with
              | error e => cases hacc : acc.2.1 <;> simp [hrd, hrv, hacc] at h <;> (try split at h) <;> simp_all
              | ok rv =>
                have hfin : acc'.1 = Dict.set acc.1 (versionField t) (.obj [("file_relpath", J.str t), ("revdesc", rd), ("revdate", rv),
                    ("elements", J.arr ((sortNum (Dict.keys els)).map .str))]) := by
                  cases hacc : acc.2.1 with
                  | none =>
                    simp only [hacc, hrd, hrv, Except.ok.injEq] at h
                    rw [← h]; rfl
                  | some ft0 =>
                    simp only [hacc, hrd, hrv] at h
                    split at h
                    · cases h
                    · simp only [Except.ok.injEq] at h
                      rw [← h]; rfl
                exact ⟨_, hfin, hfr rd rv, bs, els, rfl, hget, hel rd rv⟩

/-- what the index says about one version: it names a table file of that version and lists that table's composed elements -/
def RecordOf (dir : Dir) (S : List String) (ver : String) (r : J) : Prop :=
  ∃ t ∈ S, versionField t = ver ∧ ∃ rec_ : Dict, r = .obj rec_ ∧ Dict.get? rec_ "file_relpath" = some (.str t)
    ∧ ∃ bs els, composeTable dir t = .ok bs ∧ Dict.get? bs "elements" = some (.obj els)
      ∧ Dict.get? rec_ "elements" = some (.arr ((sortNum (Dict.keys els)).map .str))

theorem foldlM_viStep (dir : Dir) (S : List String) (tables : List String) (hS : ∀ t ∈ tables, t ∈ S) :
    ∀ (acc res : Dict × Option J × Option Dict),
      (∀ ver r, Dict.get? acc.1 ver = some r → RecordOf dir S ver r) →
      tables.foldlM (viStep dir) acc = .ok res →
      (∀ ver r, Dict.get? res.1 ver = some r → RecordOf dir S ver r)
      ∧ (∀ t ∈ tables, (Dict.get? res.1 (versionField t)).isSome = true)
      ∧ (∀ ver, (Dict.get? acc.1 ver).isSome = true → (Dict.get? res.1 ver).isSome = true) := by
  induction tables with
  | nil =>
    intro acc res hinv h
    simp only [List.foldlM_nil, pure, Except.pure, Except.ok.injEq] at h
    subst h
    exact ⟨hinv, by simp, fun _ h => h⟩
  | cons t ts ih =>
    intro acc res hinv h
    simp only [List.foldlM_cons, bind, Except.bind] at h
    cases hstep : viStep dir acc t with
    | error e => simp [hstep] at h
    | ok acc1 =>
      simp only [hstep] at h
      obtain ⟨rec_, hset, hfr, bs, els, hct, hel, hre⟩ := viStep_spec dir acc acc1 t hstep
      have hinv1 : ∀ ver r, Dict.get? acc1.1 ver = some r → RecordOf dir S ver r := by
        intro ver r hg
        rw [hset] at hg
        by_cases hv : versionField t = ver
        · subst hv
          rw [Dict.get?_set_same] at hg
          cases hg
          exact ⟨t, hS t (by simp), rfl, rec_, rfl, hfr, bs, els, hct, hel, hre⟩
        · rw [Dict.get?_set_other _ _ _ _ hv] at hg
          exact hinv ver r hg
      obtain ⟨h1, h2, h3⟩ := ih (fun t' ht' => hS t' (by simp [ht'])) acc1 res hinv1 h
      refine ⟨h1, ?_, ?_⟩
      · intro t' ht'
        rcases List.mem_cons.1 ht' with rfl | ht''
        · apply h3
          rw [hset, Dict.get?_set_same]; rfl
        · exact h2 t' ht''
      · intro ver hv
        apply h3
        rw [hset]
        by_cases hvt : versionField t = ver
        · subst hvt; rw [Dict.get?_set_same]; rfl
        · rw [Dict.get?_set_other _ _ _ _ hvt]; exact hv

/-- **the version records of a basis are exactly its table files**: every version listed names one of the table files
(with that file's path and the elements of its composition), and every table file's version is listed -/
theorem versionInfo_spec (dir : Dir) (tables : List String) (res : Dict × Option J × Option Dict)
    (h : versionInfo dir tables = .ok res) :
    (∀ ver r, Dict.get? res.1 ver = some r → RecordOf dir tables ver r)
    ∧ (∀ t ∈ tables, (Dict.get? res.1 (versionField t)).isSome = true) := by
  rw [versionInfo_eq] at h
  obtain ⟨h1, h2, _⟩ := foldlM_viStep dir tables tables (fun _ h => h) ([], none, none) res
    (by intro ver r hg; simp [Dict.get?] at hg) h
  exact ⟨h1, h2⟩

end BSE.Index
