import BSEProofs.Lemmas.SortPerm
/-! Shape promises of `sort_shell` / `sort_shells` (C02): exponents come out in decreasing order, shells by
increasing highest momentum, and sorting what is already sorted changes nothing. -/
namespace BSE
variable {ν : Type}

/-- the value the code sorts an exponent by: `float(x[1])`, 0 beyond the list (never used) -/
def expKey (val : ν → Rat) (exps : List ν) (i : Nat) : Rat := ((exps[i]?).map val).getD 0

theorem zIdx_sorted (val : ν → Rat) (sh : Shell ν) :
    (zIdx val sh).Pairwise (fun i j => expKey val sh.exps i ≥ expKey val sh.exps j) := by
  unfold zIdx sortIdx
  have h := List.pairwise_mergeSort (le := fun i j => decide (expKey val sh.exps i ≥ expKey val sh.exps j))
    (by intro a b c hab hbc
        simp only [decide_eq_true_eq, ge_iff_le] at *
        exact Rat.le_trans hbc hab)
    (by intro a b
        simp only [Bool.or_eq_true, decide_eq_true_eq, ge_iff_le]
        exact Rat.le_total.symm)
    (List.range sh.exps.length)
  exact h.imp (by intro a b hab; simpa using hab)

/-- **sort_shell: the exponents of the result are in decreasing order of value** (for every shell) -/
theorem sortShell_exps_sorted (val : ν → Rat) (rsq : List Rat) (sh : Shell ν) :
    ((sortShell val rsq sh).exps.map val).Pairwise (fun a b => a ≥ b) := by
  rw [sortShell_exps, List.pairwise_map]
  unfold permBy
  rw [List.pairwise_filterMap]
  refine (zIdx_sorted val sh).imp ?_
  intro i j hij b hb b' hb'
  simpa [expKey, hb, hb'] using hij

/-- reading a list through at least all its indices gives the list -/
theorem filterMap_range_ge {α : Type} (xs : List α) (m : Nat) (hm : xs.length ≤ m) :
    (List.range m).filterMap (xs[·]?) = xs := by
  obtain ⟨k, rfl⟩ : ∃ k, m = xs.length + k := ⟨m - xs.length, by omega⟩
  rw [List.range_add, List.filterMap_append, filterMap_range_getElem?]
  have : List.filterMap (fun x => xs[x]?) (List.map (fun x => xs.length + x) (List.range k)) = [] := by
    rw [List.filterMap_eq_nil_iff]
    intro a ha
    simp only [List.mem_map, List.mem_range] at ha
    obtain ⟨b, _, rfl⟩ := ha
    simp
  rw [this, List.append_nil]

theorem length_permBy_le {α : Type} (idx : List Nat) (xs : List α) : (permBy idx xs).length ≤ idx.length :=
  List.length_filterMap_le _ _

theorem length_permBy_of_perm {α : Type} (idx : List Nat) (xs : List α) (h : idx.Perm (List.range xs.length)) :
    (permBy idx xs).length = xs.length := (perm_filterMap_idx xs idx h).length_eq

/-- the index sort of an already sorted key list is the identity -/
theorem sortIdx_of_sorted (n : Nat) (le : Nat → Nat → Bool) (h : ∀ i j, i < j → j < n → le i j = true) :
    sortIdx n le = List.range n := by
  unfold sortIdx
  apply List.mergeSort_of_pairwise
  rw [List.pairwise_iff_getElem]
  intro i j hi hj hij
  simp only [List.getElem_range]
  simp only [List.length_range] at hj
  exact h i j hij hj

/-- on a shell whose exponents are already in decreasing order the exponent index sort is the identity -/
theorem zIdx_of_sorted (val : ν → Rat) (sh : Shell ν) (hs : (sh.exps.map val).Pairwise (fun a b => a ≥ b)) :
    zIdx val sh = List.range sh.exps.length := by
  unfold zIdx
  apply sortIdx_of_sorted
  intro i j hij hj
  have hi : i < sh.exps.length := by omega
  rw [List.pairwise_map, List.pairwise_iff_getElem] at hs
  have := hs i j hi hj hij
  simpa [List.getElem?_eq_getElem hi, List.getElem?_eq_getElem hj] using this

/-- the keys of the contractions after the sort: ascending -/
theorem cIdx_sorted (rsq : List Rat) :
    (sortIdx rsq.length (fun i j => decide (keyAt rsq i ≤ keyAt rsq j))).Pairwise (fun i j => keyAt rsq i ≤ keyAt rsq j) := by
  unfold sortIdx
  have h := List.pairwise_mergeSort (le := fun i j => decide (keyAt rsq i ≤ keyAt rsq j))
    (by intro a b c hab hbc
        simp only [decide_eq_true_eq] at *
        exact Rat.le_trans hab hbc)
    (by intro a b
        simp only [Bool.or_eq_true, decide_eq_true_eq]
        exact Rat.le_total)
    (List.range rsq.length)
  exact h.imp (by intro a b hab; simpa using hab)

/-- **sort_shell is idempotent**: sorting the sorted shell again — the spatial-extent keys having moved with their
contractions — returns it unchanged.  For every shell and every key list. -/
theorem sortShell_idem (val : ν → Rat) (rsq : List Rat) (sh : Shell ν) :
    sortShell val (permBy (cIdx rsq sh) rsq) (sortShell val rsq sh) = sortShell val rsq sh := by
  have hz : zIdx val (sortShell val rsq sh) = List.range (sortShell val rsq sh).exps.length :=
    zIdx_of_sorted val _ (sortShell_exps_sorted val rsq sh)
  have hzlen : (sortShell val rsq sh).exps.length = sh.exps.length := by
    rw [sortShell_exps]; exact length_permBy_of_perm _ _ (sortIdx_perm _ _)
  -- the contraction order of the sorted shell is already the sorted one
  have hc : cIdx (permBy (cIdx rsq sh) rsq) (sortShell val rsq sh)
      = List.range (if sh.am.length = 1 then rsq.length else (sortShell val rsq sh).coefs.length) := by
    unfold cIdx
    rw [sortShell_am]
    by_cases h1 : sh.am.length = 1
    · simp only [h1, if_true]
      have hlen : (permBy (sortIdx rsq.length fun i j => decide (keyAt rsq i ≤ keyAt rsq j)) rsq).length = rsq.length :=
        length_permBy_of_perm _ _ (sortIdx_perm _ _)
      rw [hlen]
      apply sortIdx_of_sorted
      intro i j hij hj
      -- the keys read through the sorted index list are ascending
      have hs := cIdx_sorted rsq
      have hperm := sortIdx_perm rsq.length (fun i j => decide (keyAt rsq i ≤ keyAt rsq j))
      generalize hI : (sortIdx rsq.length fun i j => decide (keyAt rsq i ≤ keyAt rsq j)) = idx at hs hperm hlen ⊢
      have hidxlen : idx.length = rsq.length := by simpa using hperm.length_eq
      have hin : ∀ k ∈ idx, k < rsq.length := fun k hk => List.mem_range.1 (hperm.mem_iff.1 hk)
      have hmap : ∀ l : List Nat, (∀ k ∈ l, k < rsq.length) → permBy l rsq = l.map (fun i => (rsq[i]?).getD 0) := by
        intro l hl
        unfold permBy
        induction l with
        | nil => rfl
        | cons a as ih =>
          have ha : a < rsq.length := hl a (by simp)
          simp only [List.filterMap_cons, List.getElem?_eq_getElem ha, List.map_cons, Option.getD_some]
          rw [ih (fun k hk => hl k (by simp [hk]))]
      have hmap := hmap idx hin
      have hget : ∀ k (hk : k < idx.length), keyAt (permBy idx rsq) k = keyAt rsq idx[k] := by
        intro k hk
        unfold keyAt
        rw [hmap]
        simp [List.getElem?_map, List.getElem?_eq_getElem hk]
      have hi : i < idx.length := by omega
      have hj' : j < idx.length := by omega
      rw [List.pairwise_iff_getElem] at hs
      simpa [hget i hi, hget j hj'] using hs i j hi hj' hij
    · simp only [h1, if_false]
  -- now both index lists are ranges that cover the lists they read
  have e1 : permBy (zIdx val (sortShell val rsq sh)) (sortShell val rsq sh).exps = (sortShell val rsq sh).exps := by
    rw [hz]; exact filterMap_range_getElem? _
  have hcollen : ∀ col ∈ (sortShell val rsq sh).coefs, col.length ≤ (sortShell val rsq sh).exps.length := by
    intro col hcol
    rw [sortShell_coefs] at hcol
    obtain ⟨c0, _, rfl⟩ := List.mem_map.1 hcol
    rw [hzlen]
    have := length_permBy_le (zIdx val sh) c0
    have hl : (zIdx val sh).length = sh.exps.length := by
      unfold zIdx; simpa using (sortIdx_perm _ _).length_eq
    omega
  have hncol : (sortShell val rsq sh).coefs.length ≤ (if sh.am.length = 1 then rsq.length else (sortShell val rsq sh).coefs.length) := by
    by_cases h1 : sh.am.length = 1
    · simp only [h1, if_true]
      rw [sortShell_coefs, List.length_map]
      have := length_permBy_le (cIdx rsq sh) sh.coefs
      have hl : (cIdx rsq sh).length = rsq.length := by
        unfold cIdx; simp only [h1, if_true]; simpa using (sortIdx_perm _ _).length_eq
      omega
    · simp [h1]
  have e2 : (permBy (cIdx (permBy (cIdx rsq sh) rsq) (sortShell val rsq sh)) (sortShell val rsq sh).coefs).map
        (permBy (zIdx val (sortShell val rsq sh))) = (sortShell val rsq sh).coefs := by
    rw [hc, hz]
    unfold permBy
    rw [filterMap_range_ge _ _ hncol]
    conv => rhs; rw [← List.map_id (sortShell val rsq sh).coefs]
    apply List.map_congr_left
    intro col hcol
    exact filterMap_range_ge col _ (hcollen col hcol)
  have hshape : ∀ s : Shell ν, sortShell val (permBy (cIdx rsq sh) rsq) s
      = { s with exps := permBy (zIdx val s) s.exps,
                 coefs := (permBy (cIdx (permBy (cIdx rsq sh) rsq) s) s.coefs).map (permBy (zIdx val s)) } := by
    intro s
    have h1 := sortShell_exps val (permBy (cIdx rsq sh) rsq) s
    have h2 := sortShell_coefs val (permBy (cIdx rsq sh) rsq) s
    cases hs : sortShell val (permBy (cIdx rsq sh) rsq) s with
    | mk am ft rg ex co =>
      have : am = s.am ∧ ft = s.ftype ∧ rg = s.region := by
        have := congrArg Shell.am hs; have h' := congrArg Shell.ftype hs; have h'' := congrArg Shell.region hs
        exact ⟨this.symm.trans rfl |>.symm ▸ rfl, h'.symm.trans rfl |>.symm ▸ rfl, h''.symm.trans rfl |>.symm ▸ rfl⟩
      rw [hs] at h1 h2
      simp only at h1 h2
      obtain ⟨ha, hf, hr⟩ := this
      subst ha hf hr h1 h2
      rfl
  rw [hshape, e1, e2]

/-- **sort_shells: the shells come out by increasing highest momentum** (and, inside one momentum, by increasing key) -/
theorem sortShells_am_sorted (val : ν → Rat) (keyed : List (Shell ν × List Rat × Rat)) :
    ((sortShells val keyed).map (fun s => s.am.foldl max 0)).Pairwise (fun a b => a ≤ b) := by
  unfold sortShells
  simp only
  generalize hS : keyed.map (fun t => (sortShell val t.2.1 t.1, t.1.am.foldl max 0, t.2.2)) = sorted
  have hmem : ∀ x ∈ sorted, x.2.1 = x.1.am.foldl max 0 := by
    intro x hx
    rw [← hS] at hx
    obtain ⟨t, _, rfl⟩ := List.mem_map.1 hx
    simp [sortShell_am]
  have hp := List.pairwise_mergeSort
    (le := fun (a b : Shell ν × Nat × Rat) => decide (a.2.1 < b.2.1 ∨ (a.2.1 = b.2.1 ∧ a.2.2 ≤ b.2.2)))
    (by intro a b c hab hbc
        simp only [decide_eq_true_eq] at *
        rcases hab with h1 | ⟨h1, h2⟩ <;> rcases hbc with h3 | ⟨h3, h4⟩
        · exact Or.inl (Nat.lt_trans h1 h3)
        · exact Or.inl (h3 ▸ h1)
        · exact Or.inl (h1 ▸ h3)
        · exact Or.inr ⟨h1.trans h3, Rat.le_trans h2 h4⟩)
    (by intro a b
        simp only [Bool.or_eq_true, decide_eq_true_eq]
        rcases Nat.lt_trichotomy a.2.1 b.2.1 with h | h | h
        · exact Or.inl (Or.inl h)
        · rcases (Rat.le_total (a := a.2.2) (b := b.2.2)) with h2 | h2
          · exact Or.inl (Or.inr ⟨h, h2⟩)
          · exact Or.inr (Or.inr ⟨h.symm, h2⟩)
        · exact Or.inr (Or.inl h))
    sorted
  rw [List.map_map, List.pairwise_map]
  refine hp.imp_of_mem ?_
  intro a b ha hb hab
  have ha' := hmem a ((List.mergeSort_perm _ _).mem_iff.1 ha)
  have hb' := hmem b ((List.mergeSort_perm _ _).mem_iff.1 hb)
  simp only [decide_eq_true_eq] at hab
  simp only [Function.comp]
  rw [← ha', ← hb']
  rcases hab with h | ⟨h, _⟩
  · exact Nat.le_of_lt h
  · exact Nat.le_of_eq h

/-- every shell of the sorted list has its exponents in decreasing order -/
theorem sortShells_exps_sorted (val : ν → Rat) (keyed : List (Shell ν × List Rat × Rat)) :
    ∀ s ∈ sortShells val keyed, (s.exps.map val).Pairwise (fun a b => a ≥ b) := by
  intro s hs
  unfold sortShells at hs
  simp only [List.mem_map] at hs
  obtain ⟨x, hx, rfl⟩ := hs
  have hx' := (List.mergeSort_perm _ _).mem_iff.1 hx
  obtain ⟨t, _, rfl⟩ := List.mem_map.1 hx'
  exact sortShell_exps_sorted val t.2.1 t.1

end BSE
