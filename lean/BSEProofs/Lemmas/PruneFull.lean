import BSEModel.PruneFuncs
import BSEModel.Spdf
import BSEModel.MakeGeneral
import BSEModel.ManipOps
/-! Full-operation lemmas: a re-contraction step followed by `prune_basis` keeps the set of contracted
functions, for semantically well-formed shells. -/
namespace BSE
variable {ν : Type}

/-- semantic well-formedness of a shell: rectangular, at least one contraction, a momentum, and no
contraction that is the zero function (the semantic form of "no all-zero contraction") -/
structure SemWF (val : ν → Rat) (sh : Shell ν) : Prop where
  am_ne : sh.am ≠ []
  rect : RectShell sh
  cols_ne : sh.coefs ≠ []
  live : ∀ c ∈ sh.coefs, ∃ x, colFn val sh.exps c x ≠ 0

theorem colFn_nil_exps (val : ν → Rat) (c : List ν) (x : Rat) : colFn val [] c x = 0 := by simp [colFn]

/-- a shell with a non-zero contracted function keeps at least one primitive through `prune_shell` -/
theorem pruneShell_survives (val : ν → Rat) (sh sh' : Shell ν) (hw : SemWF val sh)
    (h : pruneShell val sh = .ok sh') : sh'.exps ≠ [] := by
  intro hnil
  obtain ⟨c, hc⟩ : ∃ c, c ∈ sh.coefs := by
    cases hcs : sh.coefs with
    | nil => exact absurd hcs hw.cols_ne
    | cons a as => exact ⟨a, by simp⟩
  obtain ⟨x, hx⟩ := hw.live c hc
  obtain ⟨j, hj, rfl⟩ := List.mem_iff_getElem.1 hc
  have hr : Rect sh.exps.length sh.coefs := fun c hc => hw.rect c hc
  have := pruneShell_colFn val sh sh' _ rfl hr hw.cols_ne h j hj x
  rw [hnil, colFn_nil_exps] at this
  simp only [List.getElem?_eq_getElem hj, Option.getD_some] at this
  exact hx this.symm

/-- `prune_shell` keeps the list of contracted functions of a semantically well-formed shell -/
theorem pruneShell_funcs_wf (val : ν → Rat) (sh sh' : Shell ν) (hw : SemWF val sh)
    (h : pruneShell val sh = .ok sh') : sh'.funcs val = sh.funcs val :=
  pruneShell_funcs val sh sh' _ rfl (fun c hc => hw.rect c hc) hw.cols_ne h (pruneShell_survives val sh sh' hw h)

/-- **prune_basis keeps the set of contracted functions** -/
theorem funcSet_pruneShells [DecidableEq ν] (val : ν → Rat) (shells out : List (Shell ν))
    (hw : ∀ sh ∈ shells, SemWF val sh) (h : pruneShells val shells = .ok out) (f : Func) :
    funcSet val out f ↔ funcSet val shells f := by
  unfold pruneShells at h
  cases hm : mapE (pruneShell val) shells with
  | error e => simp [hm] at h
  | ok ss =>
    simp only [hm] at h
    cases h
    rw [funcSet_dedup]
    obtain ⟨hl, hi⟩ := mapE_ok hm
    unfold funcSet
    constructor
    · rintro ⟨s', hs', hf⟩
      obtain ⟨i, hi', rfl⟩ := List.mem_iff_getElem.1 hs'
      have hlt : i < shells.length := by omega
      refine ⟨shells[i], List.getElem_mem _, ?_⟩
      rw [← pruneShell_funcs_wf val shells[i] ss[i] (hw _ (List.getElem_mem _)) (hi i hlt hi')]
      exact hf
    · rintro ⟨s, hs, hf⟩
      obtain ⟨i, hi', rfl⟩ := List.mem_iff_getElem.1 hs
      have hlt : i < ss.length := by omega
      refine ⟨ss[i], List.getElem_mem _, ?_⟩
      rw [pruneShell_funcs_wf val shells[i] ss[i] (hw _ (List.getElem_mem _)) (hi i hi' hlt)]
      exact hf

/-- the splitting step of uncontract_general keeps semantic well-formedness -/
theorem semWF_uncontractGeneralCore (val : ν → Rat) (shells : List (Shell ν)) (hw : ∀ sh ∈ shells, SemWF val sh) :
    ∀ s ∈ uncontractGeneralCore shells, SemWF val s := by
  intro s hs
  unfold uncontractGeneralCore at hs
  obtain ⟨sh, hsh, hin⟩ := List.mem_flatMap.1 hs
  have w := hw sh hsh
  split at hin
  · simp at hin; subst hin; exact w
  · split at hin
    · obtain ⟨c, hc, rfl⟩ := List.mem_map.1 hin
      refine ⟨w.am_ne, ?_, by simp, ?_⟩
      · intro c' hc'
        have e : c' = c := by simpa using hc'
        rw [e]; exact w.rect c hc
      · intro c' hc'
        have e : c' = c := by simpa using hc'
        rw [e]; exact w.live c hc
    · simp at hin

/-- **uncontract_general (split, then prune) keeps the set of contracted functions** -/
theorem funcSet_uncontractGeneral [DecidableEq ν] (val : ν → Rat) (shells out : List (Shell ν))
    (hw : ∀ sh ∈ shells, SemWF val sh) (h : uncontractGeneral val shells = .ok out) (f : Func) :
    funcSet val out f ↔ funcSet val shells f := by
  unfold uncontractGeneral at h
  rw [funcSet_pruneShells val _ out (semWF_uncontractGeneralCore val shells hw) h f]
  exact funcSet_uncontractGeneralCore val shells f (fun sh hsh => (hw sh hsh).am_ne)

end BSE

namespace BSE
variable {ν : Type}

/-- every column of the merged shell is some column of some source shell, zero-padded at that shell's offset -/
theorem mem_groupCols (zero : ν) (c : List ν) :
    ∀ (g : List (Shell ν)) (pre : List ν) (N : Nat), c ∈ groupCols zero N pre.length g →
      ∃ sh ∈ g, ∃ c0 ∈ sh.coefs, ∃ pre' : List ν,
        c = List.replicate pre'.length zero ++ c0 ++ List.replicate (N - (pre'.length + c0.length)) zero
        ∧ ∃ post, pre ++ g.flatMap (·.exps) = pre' ++ sh.exps ++ post := by
  intro g
  induction g with
  | nil => intro pre N h; simp [groupCols] at h
  | cons s r ihg =>
    intro pre N h
    simp only [groupCols, List.mem_append, padCols, List.mem_map] at h
    rcases h with ⟨c0, hc0, rfl⟩ | h
    · exact ⟨s, by simp, c0, hc0, pre, rfl, r.flatMap (·.exps), by simp⟩
    · have h' : c ∈ groupCols zero N (pre ++ s.exps).length r := by simpa using h
      obtain ⟨sh, hsh, c0, hc0, pre', hceq, post, hpost⟩ := ihg (pre ++ s.exps) N h'
      exact ⟨sh, by simp [hsh], c0, hc0, pre', hceq, post, by simpa using hpost⟩

/-- the merged shell of a group of semantically well-formed single-momentum shells is well-formed -/
theorem semWF_mergeGroup (val : ν → Rat) (zero : ν) (hz : val zero = 0) (a : Nat) (group : List (Shell ν))
    (hne : group ≠ []) (hw : ∀ sh ∈ group, SemWF val sh) : SemWF val (mergeGroup zero [a] group) := by
  have key : ∀ c ∈ (mergeGroup zero [a] group).coefs, c.length = (mergeGroup zero [a] group).exps.length
      ∧ ∃ sh ∈ group, ∃ c0 ∈ sh.coefs, colFn val (mergeGroup zero [a] group).exps c = colFn val sh.exps c0 := by
    intro c hc
    simp only [mergeGroup] at hc ⊢
    obtain ⟨sh, hsh, c0, hc0, pre', hceq, post, hpost⟩ := mem_groupCols zero c group [] _ hc
    have hlen : c0.length = sh.exps.length := (hw sh hsh).rect c0 hc0
    have hE : group.flatMap (·.exps) = pre' ++ sh.exps ++ post := by simpa using hpost
    have hL : (group.flatMap (·.exps)).length = (pre' ++ sh.exps ++ post).length := by rw [hE]
    refine ⟨?_, sh, hsh, c0, hc0, ?_⟩
    · rw [hceq, hL]
      simp only [List.length_append, List.length_replicate, hlen]
      omega
    · funext x
      rw [hceq, hL, hE]
      exact colFn_padded val zero hz pre' sh.exps post c0 hlen x
  refine ⟨by simp [mergeGroup], fun c hc => (key c hc).1, ?_, ?_⟩
  · -- at least one column: the first shell of the group has one
    cases group with
    | nil => exact absurd rfl hne
    | cons s r =>
      have hs := hw s (by simp)
      cases hcs : s.coefs with
      | nil => exact absurd hcs hs.cols_ne
      | cons c0 cs =>
        simp [mergeGroup, groupCols, padCols, hcs]
  · intro c hc
    obtain ⟨_, sh, hsh, c0, hc0, hfn⟩ := key c hc
    obtain ⟨x, hx⟩ := (hw sh hsh).live c0 hc0
    exact ⟨x, by rw [hfn]; exact hx⟩

/-- the per-momentum merge of make_general keeps semantic well-formedness -/
theorem semWF_makeGeneralCore [DecidableEq ν] (val : ν → Rat) (zero : ν) (hz : val zero = 0)
    (sortAm : List (List Nat) → List (List Nat)) (hperm : ∀ l x, x ∈ sortAm l ↔ x ∈ l)
    (shells : List (Shell ν)) (hw : ∀ sh ∈ shells, SemWF val sh) :
    ∀ s ∈ makeGeneralCore zero sortAm shells, SemWF val s := by
  intro s hs
  unfold makeGeneralCore at hs
  simp only [List.mem_append, List.mem_filter, List.mem_map] at hs
  rcases hs with ⟨hsh, _⟩ | ⟨am, hamIn, rfl⟩
  · exact hw s hsh
  · rw [hperm, mem_dedupKeys] at hamIn
    simp only [List.mem_map, List.mem_filter] at hamIn
    obtain ⟨s0, ⟨hs0, h10⟩, rfl⟩ := hamIn
    have h1 : ¬ s0.am.length > 1 := by simpa using h10
    obtain ⟨a, ha⟩ : ∃ a, s0.am = [a] := by
      cases hsa : s0.am with
      | nil => exact absurd hsa (hw s0 hs0).am_ne
      | cons a as =>
        cases as with
        | nil => exact ⟨a, rfl⟩
        | cons b bs => simp [hsa] at h1
    rw [ha]
    apply semWF_mergeGroup val zero hz a
    · intro hnil
      have : s0 ∈ shells.filter (fun sh => sh.am = [a]) := List.mem_filter.2 ⟨hs0, by simpa using ha⟩
      rw [hnil] at this; cases this
    · intro sh hsh; exact hw sh (List.mem_filter.1 hsh).1

theorem mem_insertAm (x b : List Nat) (l : List (List Nat)) : x ∈ insertAm b l ↔ x = b ∨ x ∈ l := by
  induction l with
  | nil => simp [insertAm]
  | cons c cs ihc =>
    unfold insertAm
    split
    · simp
    · simp only [List.mem_cons, ihc]
      constructor
      · rintro (h | h | h) <;> simp [h]
      · rintro (h | h | h) <;> simp [h]

theorem mem_sortAm (l : List (List Nat)) (x : List Nat) : x ∈ sortAm l ↔ x ∈ l := by
  induction l with
  | nil => simp [sortAm]
  | cons a as ih =>
    show x ∈ insertAm a (sortAm as) ↔ _
    rw [mem_insertAm, ih]; simp

theorem funcSet_makeGeneral_aux [DecidableEq ν] (val : ν → Rat) (zero : ν) (hz : val zero = 0)
    (s0 out : List (Shell ν)) (hw : ∀ sh ∈ s0, SemWF val sh)
    (h : pruneShells val (makeGeneralCore zero sortAm s0) = .ok out) (f : Func) :
    funcSet val out f ↔ funcSet val s0 f := by
  have hcore := funcSet_makeGeneralCore val zero hz sortAm mem_sortAm s0
    (fun sh hsh => (hw sh hsh).rect) (fun sh hsh => (hw sh hsh).am_ne) f
  have hsem := semWF_makeGeneralCore val zero hz sortAm mem_sortAm s0 hw
  rw [funcSet_pruneShells val _ out hsem h f, hcore]

/-- **make_general (optional sp-split, merge per momentum, prune) keeps the set of contracted functions**;
the hypothesis speaks about the shell list after the optional split of fused shells -/
theorem funcSet_makeGeneral [DecidableEq ν] (val : ν → Rat) (zero : ν) (hz : val zero = 0) (skip : Bool)
    (shells out : List (Shell ν))
    (hw : ∀ sh ∈ (if skip then shells else uncontractSpdf 0 shells), SemWF val sh)
    (h : makeGeneral val zero skip shells = .ok out) (f : Func) :
    funcSet val out f ↔ funcSet val shells f := by
  unfold makeGeneral at h
  cases skip with
  | true =>
    simp only [if_true] at h hw
    split at h
    · cases h
    · exact funcSet_makeGeneral_aux val zero hz shells out hw h f
  | false =>
    simp only [Bool.false_eq_true, if_false] at h hw
    split at h
    · cases h
    · rw [funcSet_makeGeneral_aux val zero hz _ out hw h f]
      exact funcSet_uncontractSpdf val 0 shells f

end BSE
