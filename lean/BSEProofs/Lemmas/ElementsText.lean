import BSEModel.Notation
/-! # `expand_elements` reads back what `compact_elements` wrote — the text layer

The string `compact_elements` produces is a comma-separated list of *tokens*, each a symbol or `symbol-symbol`.  On such a
string every normalisation step of `expand_elements` (squeezing repeated `,` / `-`, removing white space, stripping commas,
the four malformed-pattern tests) is the identity / passes, the split at the commas gives the tokens back, and every token
expands to its range. -/
namespace BSE.Notation

/-- a word: a non-empty string of letters (no `,`, no `-`, no white space; word characters) -/
structure Word (w : Str) : Prop where
  ne : w ≠ []
  plain : ∀ c ∈ w, c ≠ ',' ∧ c ≠ '-' ∧ isPySpace c = false ∧ isWord c = true

inductive Tok
  | one (w : Str)
  | range (w v : Str)

def Tok.str : Tok → Str
  | .one w => w
  | .range w v => w ++ '-' :: v

def Tok.OK : Tok → Prop
  | .one w => Word w
  | .range w v => Word w ∧ Word v

/-- `','.join(tokens)` -/
def joinToks : List Tok → Str
  | [] => []
  | [t] => t.str
  | t :: rest => t.str ++ ',' :: joinToks rest

theorem joinToks_cons (t u : Tok) (rest : List Tok) : joinToks (t :: u :: rest) = t.str ++ ',' :: joinToks (u :: rest) := rfl

/-! ### characters of a token string -/

/-- a token string is a word, optionally followed by `-` and a word -/
theorem tok_head (t : Tok) (ok : t.OK) : ∃ c r, t.str = c :: r ∧ c ≠ ',' ∧ c ≠ '-' ∧ isPySpace c = false ∧ isWord c = true := by
  cases t with
  | one w =>
    cases w with
    | nil => exact absurd rfl ok.ne
    | cons c r => exact ⟨c, r, rfl, ok.plain c (by simp)⟩
  | range w v =>
    cases w with
    | nil => exact absurd rfl ok.1.ne
    | cons c r => exact ⟨c, r ++ '-' :: v, rfl, ok.1.plain c (by simp)⟩

theorem tok_no_comma (t : Tok) (ok : t.OK) : ∀ c ∈ t.str, c ≠ ',' ∧ isPySpace c = false := by
  intro c hc
  cases t with
  | one w => exact ⟨(ok.plain c hc).1, (ok.plain c hc).2.2.1⟩
  | range w v =>
    simp only [Tok.str, List.mem_append, List.mem_cons] at hc
    rcases hc with h | rfl | h
    · exact ⟨(ok.1.plain c h).1, (ok.1.plain c h).2.2.1⟩
    · exact ⟨by decide, by decide⟩
    · exact ⟨(ok.2.plain c h).1, (ok.2.plain c h).2.2.1⟩

theorem tok_last (t : Tok) (ok : t.OK) : ∃ c, t.str.getLast? = some c ∧ c ≠ ',' ∧ c ≠ '-' := by
  cases t with
  | one w =>
    cases h : w.getLast? with
    | none => exact absurd (List.getLast?_eq_none_iff.1 h) ok.ne
    | some c => exact ⟨c, h, (ok.plain c (List.mem_of_getLast? h)).1, (ok.plain c (List.mem_of_getLast? h)).2.1⟩
  | range w v =>
    cases h : v.getLast? with
    | none => exact absurd (List.getLast?_eq_none_iff.1 h) ok.2.ne
    | some c =>
      refine ⟨c, ?_, (ok.2.plain c (List.mem_of_getLast? h)).1, (ok.2.plain c (List.mem_of_getLast? h)).2.1⟩
      simp only [Tok.str]
      rw [List.getLast?_append, List.getLast?_cons]
      cases v with
      | nil => exact absurd rfl ok.2.ne
      | cons x xs => simp [h]

/-! ### the split at the commas gives the tokens back -/

theorem splitOnChar_plain (c : Char) (w : Str) (h : ∀ x ∈ w, x ≠ c) : splitOnChar c w = [w] := by
  induction w with
  | nil => rfl
  | cons x xs ih =>
    have hx : x ≠ c := h x (by simp)
    simp only [splitOnChar, hx, if_false, ih (fun y hy => h y (by simp [hy]))]

theorem splitOnChar_append (c : Char) (w rest : Str) (h : ∀ x ∈ w, x ≠ c) :
    splitOnChar c (w ++ c :: rest) = w :: splitOnChar c rest := by
  induction w with
  | nil => simp [splitOnChar]
  | cons x xs ih =>
    have hx : x ≠ c := h x (by simp)
    simp only [List.cons_append, splitOnChar, hx, if_false, ih (fun y hy => h y (by simp [hy]))]

theorem split_joinToks (ts : List Tok) (hne : ts ≠ []) (ok : ∀ t ∈ ts, t.OK) :
    splitOnChar ',' (joinToks ts) = ts.map Tok.str := by
  induction ts with
  | nil => exact absurd rfl hne
  | cons t rest ih =>
    cases rest with
    | nil =>
      simp only [joinToks, List.map_cons, List.map_nil]
      exact splitOnChar_plain ',' _ (fun x hx => (tok_no_comma t (ok t (by simp)) x hx).1)
    | cons u us =>
      rw [joinToks_cons, splitOnChar_append ',' _ _ (fun x hx => (tok_no_comma t (ok t (by simp)) x hx).1),
        ih (by simp) (fun x hx => ok x (by simp [hx]))]
      rfl

/-! ### adjacent characters: a separator never stands next to a separator -/

def adj : Str → List (Char × Char)
  | x :: y :: r => (x, y) :: adj (y :: r)
  | _ => []

def plainC (c : Char) : Prop := c ≠ ',' ∧ c ≠ '-'

/-- of any two adjacent characters at least one is not a separator -/
def Sparse (s : Str) : Prop := ∀ pq ∈ adj s, plainC pq.1 ∨ plainC pq.2

theorem adj_cons_cons (x y : Char) (r : Str) : adj (x :: y :: r) = (x, y) :: adj (y :: r) := rfl

theorem sparse_cons (x : Char) (s : Str) (hs : Sparse s) (h : ∀ y, s.head? = some y → plainC x ∨ plainC y) : Sparse (x :: s) := by
  cases s with
  | nil => intro pq hpq; simp [adj] at hpq
  | cons y r =>
    intro pq hpq
    rw [adj_cons_cons] at hpq
    rcases List.mem_cons.1 hpq with rfl | h2
    · exact h y rfl
    · exact hs pq h2

theorem sparse_append (a b : Str) (ha : Sparse a) (hb : Sparse b)
    (hj : ∀ p q, a.getLast? = some p → b.head? = some q → plainC p ∨ plainC q) : Sparse (a ++ b) := by
  induction a with
  | nil => simpa using hb
  | cons x xs ih =>
    have hxs : Sparse xs := by
      cases xs with
      | nil => intro pq hpq; simp [adj] at hpq
      | cons y r => intro pq hpq; exact ha pq (by rw [adj_cons_cons]; exact List.mem_cons_of_mem _ hpq)
    rw [List.cons_append]
    apply sparse_cons
    · apply ih hxs
      intro p q hp hq
      apply hj p q _ hq
      cases xs with
      | nil => simp at hp
      | cons y r => rw [List.getLast?_cons_cons]; exact hp
    · intro y hy
      cases xs with
      | nil =>
        simp only [List.nil_append] at hy
        exact hj x y (by simp) hy
      | cons z r =>
        simp only [List.cons_append, List.head?_cons, Option.some.injEq] at hy
        subst hy
        exact ha (x, z) (by rw [adj_cons_cons]; exact List.mem_cons_self)

theorem sparse_word (w : Str) (hw : Word w) : Sparse w := by
  intro pq hpq
  have hmem : ∀ (s : Str), ∀ pq ∈ adj s, pq.1 ∈ s := by
    intro s
    induction s with
    | nil => intro pq h; simp [adj] at h
    | cons x xs ih =>
      cases xs with
      | nil => intro pq h; simp [adj] at h
      | cons y r =>
        intro pq h
        rw [adj_cons_cons] at h
        rcases List.mem_cons.1 h with rfl | h2
        · simp
        · exact List.mem_cons_of_mem _ (ih pq h2)
  have := hw.plain pq.1 (hmem w pq hpq)
  exact Or.inl ⟨this.1, this.2.1⟩

theorem word_head (w : Str) (hw : Word w) : ∃ c r, w = c :: r ∧ plainC c := by
  cases w with
  | nil => exact absurd rfl hw.ne
  | cons c r => exact ⟨c, r, rfl, (hw.plain c (by simp)).1, (hw.plain c (by simp)).2.1⟩

theorem word_last (w : Str) (hw : Word w) : ∃ c, w.getLast? = some c ∧ plainC c := by
  cases h : w.getLast? with
  | none => exact absurd (List.getLast?_eq_none_iff.1 h) hw.ne
  | some c => exact ⟨c, rfl, (hw.plain c (List.mem_of_getLast? h)).1, (hw.plain c (List.mem_of_getLast? h)).2.1⟩

theorem sparse_tok (t : Tok) (ok : t.OK) : Sparse t.str := by
  cases t with
  | one w => exact sparse_word w ok
  | range w v =>
    show Sparse (w ++ '-' :: v)
    apply sparse_append w ('-' :: v) (sparse_word w ok.1)
    · apply sparse_cons _ _ (sparse_word v ok.2)
      intro y hy
      obtain ⟨c, r, rfl, hc⟩ := word_head v ok.2
      simp only [List.head?_cons, Option.some.injEq] at hy
      exact Or.inr (hy ▸ hc)
    · intro p q hp _
      obtain ⟨c, hc, hpl⟩ := word_last w ok.1
      rw [hc] at hp
      exact Or.inl ((Option.some.inj hp) ▸ hpl)

theorem tok_head_plain (t : Tok) (ok : t.OK) : ∃ c r, t.str = c :: r ∧ plainC c := by
  obtain ⟨c, r, h, h1, h2, _, _⟩ := tok_head t ok
  exact ⟨c, r, h, h1, h2⟩

theorem tok_last_plain (t : Tok) (ok : t.OK) : ∃ c, t.str.getLast? = some c ∧ plainC c := by
  obtain ⟨c, h, h1, h2⟩ := tok_last t ok
  exact ⟨c, h, h1, h2⟩

theorem joinToks_head (ts : List Tok) (hne : ts ≠ []) (ok : ∀ t ∈ ts, t.OK) :
    ∃ c r, joinToks ts = c :: r ∧ plainC c ∧ isPySpace c = false := by
  cases ts with
  | nil => exact absurd rfl hne
  | cons t rest =>
    obtain ⟨c, r, h, h1, h2, h3, _⟩ := tok_head t (ok t (by simp))
    cases rest with
    | nil => exact ⟨c, r, by simp [joinToks, h], ⟨h1, h2⟩, h3⟩
    | cons u us => exact ⟨c, r ++ ',' :: joinToks (u :: us), by rw [joinToks_cons, h]; rfl, ⟨h1, h2⟩, h3⟩

theorem joinToks_last (ts : List Tok) (hne : ts ≠ []) (ok : ∀ t ∈ ts, t.OK) :
    ∃ c, (joinToks ts).getLast? = some c ∧ plainC c := by
  induction ts with
  | nil => exact absurd rfl hne
  | cons t rest ih =>
    cases rest with
    | nil => simpa [joinToks] using tok_last_plain t (ok t (by simp))
    | cons u us =>
      obtain ⟨c, hc, hp⟩ := ih (by simp) (fun x hx => ok x (by simp [hx]))
      refine ⟨c, ?_, hp⟩
      rw [joinToks_cons, List.getLast?_append, List.getLast?_cons]
      obtain ⟨c0, r0, h0, _⟩ := joinToks_head (u :: us) (by simp) (fun x hx => ok x (by simp [hx]))
      rw [h0] at hc ⊢
      simp [hc]

theorem sparse_joinToks (ts : List Tok) (ok : ∀ t ∈ ts, t.OK) : Sparse (joinToks ts) := by
  induction ts with
  | nil => intro pq h; simp [joinToks, adj] at h
  | cons t rest ih =>
    cases rest with
    | nil => simpa [joinToks] using sparse_tok t (ok t (by simp))
    | cons u us =>
      rw [joinToks_cons]
      apply sparse_append _ _ (sparse_tok t (ok t (by simp)))
      · apply sparse_cons _ _ (ih (fun x hx => ok x (by simp [hx])))
        intro y hy
        obtain ⟨c, r, h, hc, _⟩ := joinToks_head (u :: us) (by simp) (fun x hx => ok x (by simp [hx]))
        rw [h] at hy
        simp only [List.head?_cons, Option.some.injEq] at hy
        exact Or.inr (hy ▸ hc)
      · intro p q hp _
        obtain ⟨c, hc, hpl⟩ := tok_last_plain t (ok t (by simp))
        rw [hc] at hp
        exact Or.inl ((Option.some.inj hp) ▸ hpl)

/-! ### the normalisation steps change nothing -/

theorem squeeze_id (c : Char) (hc : ¬ plainC c) : ∀ (s : Str), Sparse s →
    squeezeAux c false s = s ∧ (∀ x r, s = x :: r → x ≠ c → squeezeAux c true s = s) := by
  intro s
  induction s with
  | nil => intro _; exact ⟨rfl, fun x r h => by simp at h⟩
  | cons x xs ih =>
    intro hs
    have hxs : Sparse xs := by
      cases xs with
      | nil => intro pq hpq; simp [adj] at hpq
      | cons y r => intro pq hpq; exact hs pq (by rw [adj_cons_cons]; exact List.mem_cons_of_mem _ hpq)
    obtain ⟨ih1, ih2⟩ := ih hxs
    by_cases hx : x = c
    · subst hx
      -- the next character is not `x`
      have hnext : squeezeAux x true xs = xs := by
        cases xs with
        | nil => rfl
        | cons y r =>
          have hy : y ≠ x := by
            intro h
            have := hs (x, y) (by rw [adj_cons_cons]; exact List.mem_cons_self)
            rcases this with h1 | h1
            · exact hc h1
            · exact hc (h ▸ h1)
          exact ih2 y r rfl hy
      exact ⟨by simp [squeezeAux, hnext], fun x' r h hne => by simp at h; exact absurd h.1.symm hne⟩
    · exact ⟨by simp [squeezeAux, hx, ih1], fun x' r _ _ => by simp [squeezeAux, hx, ih1]⟩

theorem isSubseq_pair (a b : Char) : ∀ (s : Str), isSubseq [a, b] s = true → (a, b) ∈ adj s := by
  intro s
  induction s with
  | nil => intro h; simp [isSubseq] at h
  | cons x xs ih =>
    intro h
    simp only [isSubseq, Bool.or_eq_true] at h
    rcases h with h | h
    · cases xs with
      | nil => simp [List.isPrefixOf] at h
      | cons y r =>
        simp only [List.isPrefixOf, Bool.and_eq_true, beq_iff_eq, Bool.and_true] at h
        rw [adj_cons_cons, h.1, h.2]
        exact List.mem_cons_self
    · cases xs with
      | nil => simp [isSubseq] at h
      | cons y r => rw [adj_cons_cons]; exact List.mem_cons_of_mem _ (ih h)

theorem joinToks_nospace (ts : List Tok) (ok : ∀ t ∈ ts, t.OK) : ∀ c ∈ joinToks ts, isPySpace c = false := by
  induction ts with
  | nil => intro c h; simp [joinToks] at h
  | cons t rest ih =>
    cases rest with
    | nil => intro c h; exact (tok_no_comma t (ok t (by simp)) c (by simpa [joinToks] using h)).2
    | cons u us =>
      intro c h
      rw [joinToks_cons] at h
      rcases List.mem_append.1 h with h1 | h1
      · exact (tok_no_comma t (ok t (by simp)) c h1).2
      · rcases List.mem_cons.1 h1 with rfl | h2
        · decide
        · exact ih (fun x hx => ok x (by simp [hx])) c h2

theorem filter_nospace (s : Str) (h : ∀ c ∈ s, isPySpace c = false) : s.filter (fun c => !isPySpace c) = s := by
  rw [List.filter_eq_self]
  intro c hc
  simp [h c hc]

theorem stripChar_id (c : Char) (s : Str) (x : Char) (r : Str) (hs : s = x :: r) (hx : x ≠ c)
    (y : Char) (hl : s.getLast? = some y) (hy : y ≠ c) : stripChar c s = s := by
  unfold stripChar
  have h1 : s.dropWhile (· = c) = s := by rw [hs]; simp [List.dropWhile, hx]
  rw [h1]
  have hrev : ∃ r', s.reverse = y :: r' := by
    have := List.getLast?_eq_head?_reverse (xs := s)
    rw [hl] at this
    cases hr : s.reverse with
    | nil => rw [hr] at this; simp at this
    | cons z zs => rw [hr] at this; simp at this; exact ⟨zs, by rw [this]⟩
  obtain ⟨r', hr'⟩ := hrev
  rw [hr']
  simp only [List.dropWhile, hy, decide_false, Bool.false_eq_true]
  rw [← hr', List.reverse_reverse]

/-! ### no chained ranges: between two `-` there is always a `,` -/

theorem splitOnChar_ne_nil (c : Char) (s : Str) : splitOnChar c s ≠ [] := by
  induction s with
  | nil => simp [splitOnChar]
  | cons x xs ih =>
    unfold splitOnChar
    split
    · simp
    · cases h : splitOnChar c xs with
      | nil => simp
      | cons p ps => simp

/-- splitting behind a prefix that does not contain the separator -/
theorem splitOnChar_prefix (c : Char) (w rest : Str) (h : ∀ x ∈ w, x ≠ c) :
    ∃ p ps, splitOnChar c rest = p :: ps ∧ splitOnChar c (w ++ rest) = (w ++ p) :: ps := by
  induction w with
  | nil =>
    cases hs : splitOnChar c rest with
    | nil => exact absurd hs (splitOnChar_ne_nil c rest)
    | cons p ps => exact ⟨p, ps, rfl, by simp [hs]⟩
  | cons x xs ih =>
    obtain ⟨p, ps, h1, h2⟩ := ih (fun y hy => h y (by simp [hy]))
    refine ⟨p, ps, h1, ?_⟩
    have hx : x ≠ c := h x (by simp)
    simp only [List.cons_append, splitOnChar, hx, if_false, h2]

/-- every part but the first and the last holds a comma -/
def MidComma (P : List Str) : Prop := ∀ b ∈ P.tail.dropLast, ',' ∈ b

theorem word_no_dash (w : Str) (hw : Word w) : ∀ x ∈ w, x ≠ '-' := fun x hx => (hw.plain x hx).2.1

theorem midComma_joinToks (ts : List Tok) (hne : ts ≠ []) (ok : ∀ t ∈ ts, t.OK) :
    MidComma (splitOnChar '-' (joinToks ts)) := by
  induction ts with
  | nil => exact absurd rfl hne
  | cons t rest ih =>
    cases rest with
    | nil =>
      cases t with
      | one w =>
        have hok : Word w := ok (.one w) (by simp)
        simp only [joinToks, Tok.str]
        rw [splitOnChar_plain '-' w (word_no_dash w hok)]
        intro b hb; simp at hb
      | range w v =>
        have hok := ok (.range w v) (by simp)
        simp only [joinToks, Tok.str]
        rw [splitOnChar_append '-' w v (word_no_dash w hok.1), splitOnChar_plain '-' v (word_no_dash v hok.2)]
        intro b hb; simp at hb
    | cons u us =>
      have ih' := ih (by simp) (fun x hx => ok x (by simp [hx]))
      rw [joinToks_cons]
      cases t with
      | one w =>
        have hok := ok (.one w) (by simp)
        -- w , J : the first part grows, the others stay
        have hpre : ∀ x ∈ w ++ [','], x ≠ '-' := by
          intro x hx
          rcases List.mem_append.1 hx with h | h
          · exact word_no_dash w hok x h
          · simp at h; subst h; decide
        obtain ⟨p, ps, h1, h2⟩ := splitOnChar_prefix '-' (w ++ [',']) (joinToks (u :: us)) hpre
        have e : (Tok.one w).str ++ ',' :: joinToks (u :: us) = (w ++ [',']) ++ joinToks (u :: us) := by simp [Tok.str]
        rw [e, h2]
        rw [h1] at ih'
        intro b hb
        exact ih' b hb
      | range w v =>
        have hok := ok (.range w v) (by simp)
        have hpre : ∀ x ∈ v ++ [','], x ≠ '-' := by
          intro x hx
          rcases List.mem_append.1 hx with h | h
          · exact word_no_dash v hok.2 x h
          · simp at h; subst h; decide
        obtain ⟨p, ps, h1, h2⟩ := splitOnChar_prefix '-' (v ++ [',']) (joinToks (u :: us)) hpre
        have e : (Tok.range w v).str ++ ',' :: joinToks (u :: us) = w ++ '-' :: ((v ++ [',']) ++ joinToks (u :: us)) := by
          simp [Tok.str]
        rw [e, splitOnChar_append '-' w _ (word_no_dash w hok.1), h2]
        rw [h1] at ih'
        intro b hb
        -- parts: w :: (v ++ "," ++ p) :: ps ; the middle ones are the second (it has the comma) and the middle ones of ps
        cases ps with
        | nil => simp at hb
        | cons q qs =>
          simp only [List.tail_cons, List.dropLast_cons_cons] at hb
          rcases List.mem_cons.1 hb with rfl | hb'
          · simp
          · exact ih' b (by simpa using hb')

theorem isWord_comma : isWord ',' = false := by decide

theorem chained_go_false : ∀ (P : List Str), MidComma P → chained.go P = false := by
  intro P
  induction P with
  | nil => intro _; rfl
  | cons a rest ih =>
    intro h
    cases rest with
    | nil => rfl
    | cons b rest2 =>
      cases rest2 with
      | nil => rfl
      | cons c rest3 =>
        have hb : ',' ∈ b := h b (by simp)
        have hall : b.all isWord = false := by
          rw [List.all_eq_false]
          exact ⟨',', hb, by simp [isWord_comma]⟩
        have hrec : chained.go (b :: c :: rest3) = false := by
          apply ih
          intro x hx
          apply h x
          simp only [List.tail_cons] at hx ⊢
          rw [List.dropLast_cons_cons]
          exact List.mem_cons_of_mem _ hx
        simp [chained.go, hall, hrec]

theorem chained_joinToks (ts : List Tok) (hne : ts ≠ []) (ok : ∀ t ∈ ts, t.OK) : chained (joinToks ts) = false := by
  unfold chained
  exact chained_go_false _ (midComma_joinToks ts hne ok)

/-! ### `expand_elements` on a token string -/

theorem not_plain_comma : ¬ plainC ',' := fun h => h.1 rfl
theorem not_plain_dash : ¬ plainC '-' := fun h => h.2 rfl

/-- **on the text of a token list, `expand_elements` is: split at the commas, expand every token** -/
theorem expandStr_joinToks (ts : List Tok) (hne : ts ≠ []) (ok : ∀ t ∈ ts, t.OK) :
    expandStr (joinToks ts) = (mapExcept expandOne (ts.map Tok.str)).map List.flatten := by
  have hsp := sparse_joinToks ts ok
  obtain ⟨c0, r0, h0, hc0, _⟩ := joinToks_head ts hne ok
  obtain ⟨cl, hl, hcl⟩ := joinToks_last ts hne ok
  have e1 : squeeze ',' (joinToks ts) = joinToks ts := (squeeze_id ',' not_plain_comma _ hsp).1
  have e2 : squeeze '-' (joinToks ts) = joinToks ts := (squeeze_id '-' not_plain_dash _ hsp).1
  have e3 : (joinToks ts).filter (fun c => !isPySpace c) = joinToks ts := filter_nospace _ (joinToks_nospace ts ok)
  have e4 : stripChar ',' (joinToks ts) = joinToks ts := stripChar_id ',' _ c0 r0 h0 hc0.1 cl hl hcl.1
  have e5 : (joinToks ts).isEmpty = false := by rw [h0]; rfl
  have e6 : isSubseq ['-', ','] (joinToks ts) = false := by
    cases h : isSubseq ['-', ','] (joinToks ts) with
    | false => rfl
    | true =>
      rcases hsp _ (isSubseq_pair '-' ',' _ h) with h1 | h1
      · exact absurd h1 not_plain_dash
      · exact absurd h1 not_plain_comma
  have e7 : isSubseq [',', '-'] (joinToks ts) = false := by
    cases h : isSubseq [',', '-'] (joinToks ts) with
    | false => rfl
    | true =>
      rcases hsp _ (isSubseq_pair ',' '-' _ h) with h1 | h1
      · exact absurd h1 not_plain_comma
      · exact absurd h1 not_plain_dash
  have e8 : ((joinToks ts).head? == some '-') = false := by
    rw [h0]
    simp only [List.head?_cons]
    have : c0 ≠ '-' := hc0.2
    simpa using this
  have e9 : ((joinToks ts).getLast? == some '-') = false := by
    rw [hl]
    have : cl ≠ '-' := hcl.2
    simpa using this
  have e10 := chained_joinToks ts hne ok
  unfold expandStr
  simp only [e1, e2, e3, e4, e5, e6, e7, e8, e9, e10, Bool.false_eq_true, if_false, Bool.or_self, split_joinToks ts hne ok]

/-- what a token expands to, given the number of each word -/
theorem expandOne_one (w : Str) (hw : Word w) : expandOne w = (zFromStr w).map ([·]) := by
  unfold expandOne
  have hnot : ¬ '-' ∈ w := fun h => word_no_dash w hw '-' h rfl
  have : w.contains '-' = false := by simpa using hnot
  simp only [this, Bool.not_false, if_true]

theorem expandOne_range (w v : Str) (hw : Word w) (hv : Word v) :
    expandOne (w ++ '-' :: v) = (do let b ← zFromStr w; let e ← zFromStr v; pure (List.range' b (e + 1 - b))) := by
  unfold expandOne
  have hc : (w ++ '-' :: v).contains '-' = true := by simp
  rw [splitOnChar_append '-' w v (word_no_dash w hw), splitOnChar_plain '-' v (word_no_dash v hv)]
  simp [hc]

/-! ### from pieces to tokens -/

def wordB (w : Str) : Bool :=
  !w.isEmpty && w.all (fun c => c != ',' && c != '-' && !isPySpace c && isWord c)

theorem word_of_wordB (w : Str) (h : wordB w = true) : Word w := by
  unfold wordB at h
  simp only [Bool.and_eq_true, Bool.not_eq_true', List.all_eq_true, bne_iff_ne, ne_eq] at h
  refine ⟨by intro h0; rw [h0] at h; simp at h, ?_⟩
  intro c hc
  obtain ⟨⟨⟨h1, h2⟩, h3⟩, h4⟩ := h.2 c hc
  exact ⟨h1, h2, h3, h4⟩

/-- the symbol `compact_elements` prints for Z -/
def symOf (z : Nat) : Str := (symFromZNorm z).getD []

/-- Z is in the table, its printed symbol is a word, and `expand_elements` reads it back as Z -/
def KnownZ (z : Nat) : Prop := symFromZNorm z = some (symOf z) ∧ Word (symOf z) ∧ zFromStr (symOf z) = .ok z

def pieceToks : Piece → List Tok
  | .one a => [.one (symOf a)]
  | .two a b => [.one (symOf a), .one (symOf b)]
  | .range a b => [.range (symOf a) (symOf b)]

def PieceKnown : Piece → Prop
  | .one a => KnownZ a
  | .two a b => KnownZ a ∧ KnownZ b
  | .range a b => KnownZ a ∧ KnownZ b

theorem renderPiece_toks (p : Piece) (h : PieceKnown p) : renderPiece p = some (joinToks (pieceToks p)) := by
  cases p with
  | one a => simp [renderPiece, pieceToks, joinToks, Tok.str, h.1]
  | two a b => simp [renderPiece, pieceToks, joinToks, Tok.str, h.1.1, h.2.1]
  | range a b => simp [renderPiece, pieceToks, joinToks, Tok.str, h.1.1, h.2.1]

theorem pieceToks_ok (p : Piece) (h : PieceKnown p) : (∀ t ∈ pieceToks p, t.OK) ∧ pieceToks p ≠ [] := by
  cases p with
  | one a => exact ⟨by intro t ht; simp [pieceToks] at ht; subst ht; exact h.2.1, by simp [pieceToks]⟩
  | two a b =>
    exact ⟨by intro t ht; simp [pieceToks] at ht; rcases ht with rfl | rfl; exact h.1.2.1; exact h.2.2.1, by simp [pieceToks]⟩
  | range a b => exact ⟨by intro t ht; simp [pieceToks] at ht; subst ht; exact ⟨h.1.2.1, h.2.2.1⟩, by simp [pieceToks]⟩

theorem joinToks_append (a b : List Tok) (ha : a ≠ []) (hb : b ≠ []) : joinToks (a ++ b) = joinToks a ++ ',' :: joinToks b := by
  induction a with
  | nil => exact absurd rfl ha
  | cons t rest ih =>
    cases rest with
    | nil =>
      cases b with
      | nil => exact absurd rfl hb
      | cons u us => rfl
    | cons u us =>
      have := ih (by simp)
      simp only [List.cons_append] at this ⊢
      rw [joinToks_cons, this, joinToks_cons]
      simp

theorem intercalate_joinToks (Ls : List (List Tok)) (hne : ∀ L ∈ Ls, L ≠ []) :
    [','].intercalate (Ls.map joinToks) = joinToks Ls.flatten := by
  induction Ls with
  | nil => rfl
  | cons L rest ih =>
    cases rest with
    | nil => simp [List.intercalate, List.intersperse]
    | cons M Ms =>
      have ih' := ih (fun x hx => hne x (by simp [hx]))
      have hflat : (M :: Ms).flatten ≠ [] := by
        have := hne M (by simp)
        cases M with
        | nil => exact absurd rfl this
        | cons m ms => simp
      have e : [','].intercalate ((L :: M :: Ms).map joinToks)
          = joinToks L ++ ',' :: [','].intercalate ((M :: Ms).map joinToks) := by
        simp [List.intercalate, List.intersperse]
      rw [e, ih']
      have h2 : (L :: M :: Ms).flatten = L ++ (M :: Ms).flatten := by simp
      rw [h2, joinToks_append L _ (hne L (by simp)) hflat]

theorem mapM_render (ps : List Piece) (h : ∀ p ∈ ps, PieceKnown p) :
    ps.mapM renderPiece = some (ps.map fun p => joinToks (pieceToks p)) := by
  induction ps with
  | nil => rfl
  | cons p rest ih =>
    rw [List.mapM_cons, renderPiece_toks p (h p (by simp)), ih (fun q hq => h q (by simp [hq]))]
    rfl

/-- **the text `compact_elements` produces is the comma-joined token list of its pieces** -/
theorem compactElements_text (l : List Nat) (h : ∀ p ∈ compactPieces (sortDedup l), PieceKnown p) :
    compactElements l = some (joinToks ((compactPieces (sortDedup l)).flatMap pieceToks)) := by
  unfold compactElements
  rw [mapM_render _ h]
  simp only [Option.map_some]
  congr 1
  have := intercalate_joinToks ((compactPieces (sortDedup l)).map pieceToks)
    (by intro L hL; obtain ⟨p, hp, rfl⟩ := List.mem_map.1 hL; exact (pieceToks_ok p (h p hp)).2)
  rw [List.map_map] at this
  rw [List.flatMap_def]
  exact this

theorem mapExcept_append {α β ε : Type} (f : α → Except ε β) (a b : List α) (ra rb : List β)
    (ha : mapExcept f a = .ok ra) (hb : mapExcept f b = .ok rb) : mapExcept f (a ++ b) = .ok (ra ++ rb) := by
  induction a generalizing ra with
  | nil => simp [mapExcept] at ha; subst ha; simpa using hb
  | cons x xs ih =>
    simp only [mapExcept] at ha
    cases hx : f x with
    | error e => simp [hx] at ha
    | ok y =>
      simp only [hx] at ha
      cases hxs : mapExcept f xs with
      | error e => simp [hxs] at ha
      | ok ys =>
        simp only [hxs] at ha
        cases ha
        simp only [List.cons_append, mapExcept, hx, ih ys hxs]

theorem expand_piece (p : Piece) (h : PieceKnown p) :
    ∃ r, mapExcept expandOne ((pieceToks p).map Tok.str) = .ok r ∧ r.flatten = expandPiece p := by
  cases p with
  | one a =>
    refine ⟨[[a]], ?_, rfl⟩
    simp [pieceToks, Tok.str, mapExcept, expandOne_one _ h.2.1, h.2.2, Except.map]
  | two a b =>
    refine ⟨[[a], [b]], ?_, rfl⟩
    simp [pieceToks, Tok.str, mapExcept, expandOne_one _ h.1.2.1, expandOne_one _ h.2.2.1, h.1.2.2, h.2.2.2, Except.map]
  | range a b =>
    refine ⟨[List.range' a (b + 1 - a)], ?_, by simp [expandPiece]⟩
    simp only [pieceToks, Tok.str, List.map_cons, List.map_nil, mapExcept, expandOne_range _ _ h.1.2.1 h.2.2.1, h.1.2.2, h.2.2.2]
    rfl

theorem expand_pieces (ps : List Piece) (h : ∀ p ∈ ps, PieceKnown p) :
    ∃ r, mapExcept expandOne ((ps.flatMap pieceToks).map Tok.str) = .ok r ∧ r.flatten = expandPieces ps := by
  induction ps with
  | nil => exact ⟨[], rfl, rfl⟩
  | cons p rest ih =>
    obtain ⟨r1, h1, e1⟩ := expand_piece p (h p (by simp))
    obtain ⟨r2, h2, e2⟩ := ih (fun q hq => h q (by simp [hq]))
    refine ⟨r1 ++ r2, ?_, ?_⟩
    · rw [List.flatMap_cons, List.map_append]
      exact mapExcept_append _ _ _ _ _ h1 h2
    · simp [List.flatten_append, e1, e2, expandPieces]

/-! ### the numbers in the pieces are members of the list -/

theorem runsAux_members (xs : List Nat) : ∀ (s e : Nat), ∀ r ∈ runsAux s e xs,
    (r.1 = s ∨ r.1 ∈ xs) ∧ (r.2 = e ∨ r.2 ∈ xs) := by
  induction xs with
  | nil => intro s e r hr; simp [runsAux] at hr; subst hr; exact ⟨Or.inl rfl, Or.inl rfl⟩
  | cons x rest ih =>
    intro s e r hr
    unfold runsAux at hr
    split at hr
    · obtain ⟨h1, h2⟩ := ih s x r hr
      exact ⟨h1.elim Or.inl (fun h => Or.inr (by simp [h])), h2.elim (fun h => Or.inr (by simp [h])) (fun h => Or.inr (by simp [h]))⟩
    · rcases List.mem_cons.1 hr with rfl | hr'
      · exact ⟨Or.inl rfl, Or.inl rfl⟩
      · obtain ⟨h1, h2⟩ := ih x x r hr'
        exact ⟨h1.elim (fun h => Or.inr (by simp [h])) (fun h => Or.inr (by simp [h])),
          h2.elim (fun h => Or.inr (by simp [h])) (fun h => Or.inr (by simp [h]))⟩

theorem runs_members (xs : List Nat) : ∀ r ∈ runs xs, r.1 ∈ xs ∧ r.2 ∈ xs := by
  cases xs with
  | nil => intro r hr; simp [runs] at hr
  | cons x rest =>
    intro r hr
    obtain ⟨h1, h2⟩ := runsAux_members rest x x r hr
    exact ⟨h1.elim (fun h => by simp [h]) (fun h => by simp [h]), h2.elim (fun h => by simp [h]) (fun h => by simp [h])⟩

theorem pieces_known (xs : List Nat) (h : ∀ z ∈ xs, KnownZ z) : ∀ p ∈ compactPieces xs, PieceKnown p := by
  intro p hp
  unfold compactPieces at hp
  obtain ⟨r, hr, rfl⟩ := List.mem_map.1 hp
  obtain ⟨h1, h2⟩ := runs_members xs r hr
  unfold pieceOf
  split
  · exact h _ h1
  · split
    · exact ⟨h _ h1, h _ h2⟩
    · exact ⟨h _ h1, h _ h2⟩

end BSE.Notation
