import BSEModel.Nwchem
import BSEProofs.Lemmas.NwchemRT

/-! # NWChem ECP section: what reading gives back for what was written, and where the format loses information -/

namespace BSE.Nwchem
open BSE
variable {ν : Type}

/-! ## blocks -/

theorem blocksR_head_rows (t : List Str) (rows : List (List ν)) (rest : List (Line ν)) (h : (blocksR rest).1 = []) :
    blocksR (Line.head t :: (rows.map Line.row ++ rest)) = ([], (t, rows) :: (blocksR rest).2) := by
  simp only [blocksR, blocksR_rows, h, List.append_nil]

def potLabel (T : EcpTables ν) (maxAm : Nat) (p : EPot ν) : Str :=
  if p.am = maxAm then "ul".toList else T.amStr [p.am]

def potBlock (T : EcpTables ν) (z maxAm : Nat) (p : EPot ν) : List Str × List (List ν) :=
  ([T.symOf z, potLabel T maxAm p], p.terms.map fun t => [t.1, t.2.1, t.2.2])

theorem blocksR_pots (T : EcpTables ν) (z maxAm : Nat) (ps : List (EPot ν)) (rest : List (Line ν))
    (h : (blocksR rest).1 = []) :
    blocksR (ps.flatMap (potLines T z maxAm) ++ rest) = ([], ps.map (potBlock T z maxAm) ++ (blocksR rest).2) := by
  induction ps with
  | nil =>
    simp only [List.flatMap_nil, List.nil_append, List.map_nil]
    rw [← h]
  | cons p ps ih =>
    simp only [List.flatMap_cons, List.map_cons, List.append_assoc, List.cons_append]
    have : potLines T z maxAm p ++ (ps.flatMap (potLines T z maxAm) ++ rest)
        = Line.head [T.symOf z, potLabel T maxAm p]
            :: ((p.terms.map fun t => [t.1, t.2.1, t.2.2]).map Line.row ++ (ps.flatMap (potLines T z maxAm) ++ rest)) := by
      simp [potLines, potLabel, List.map_map, Function.comp_def]
    rw [this, blocksR_head_rows _ _ _ (by rw [ih])]
    rw [ih]
    rfl

def maxAmOf (pots : List (EPot ν)) : Nat := (pots.map (·.am)).foldl max 0

def elBlocks (T : EcpTables ν) (e : Nat × Str × List (EPot ν)) : List (List Str × List (List ν)) :=
  ([T.symOf e.1, "nelec".toList, e.2.1], []) :: (writeOrder e.2.2).map (potBlock T e.1 (maxAmOf e.2.2))

theorem blocksR_els (T : EcpTables ν) (els : List (Nat × Str × List (EPot ν))) :
    blocksR (els.flatMap (ecpElementLines T)) = ([], els.flatMap (elBlocks T)) := by
  induction els with
  | nil => simp [blocksR]
  | cons e es ih =>
    simp only [List.flatMap_cons]
    have : ecpElementLines T e ++ es.flatMap (ecpElementLines T)
        = Line.head [T.symOf e.1, "nelec".toList, e.2.1]
            :: (([] : List (List ν)).map Line.row
                ++ ((writeOrder e.2.2).flatMap (potLines T e.1 (maxAmOf e.2.2)) ++ es.flatMap (ecpElementLines T))) := by
      simp [ecpElementLines, maxAmOf]
    rw [this, blocksR_head_rows _ _ _ (by rw [blocksR_pots T e.1 _ _ _ (by rw [ih])])]
    rw [blocksR_pots T e.1 _ _ _ (by rw [ih]), ih]
    simp [elBlocks]

/-! ## the reader's state -/

theorem setNelec_new (acc : EcpAcc ν) (z : Nat) (n : Str) (h : z ∉ acc.map (·.1)) :
    setNelec acc z n = .ok (acc ++ [(z, some n, [])]) := by
  induction acc with
  | nil => rfl
  | cons a as ih =>
    obtain ⟨z0, ne, ps⟩ := a
    have h0 : z0 ≠ z := fun e => h (by simp [e])
    simp only [setNelec, h0, if_false, ih (fun hm => h (by simp [hm])), List.cons_append]

theorem addPot_last (acc : EcpAcc ν) (z : Nat) (ne : Option Str) (ps : List (RPot ν)) (p : RPot ν)
    (h : z ∉ acc.map (·.1)) : addPot (acc ++ [(z, ne, ps)]) z p = acc ++ [(z, ne, ps ++ [p])] := by
  induction acc with
  | nil => simp [addPot]
  | cons a as ih =>
    obtain ⟨z0, n0, p0⟩ := a
    have h0 : z0 ≠ z := fun e => h (by simp [e])
    simp only [List.cons_append, addPot, h0, if_false, ih (fun hm => h (by simp [hm]))]

/-- the potential as the reader stores it before the `ul` fix-up -/
def rawPot (maxAm : Nat) (p : EPot ν) : RPot ν :=
  { am := if p.am = maxAm then none else some [p.am],
    rexp := p.terms.map (·.1), gexp := p.terms.map (·.2.1), coef := p.terms.map (·.2.2) }

structure PotOK (T : EcpTables ν) (p : EPot ν) : Prop where
  terms_ne : p.terms ≠ []
  typed : ∀ t ∈ p.terms, T.isInt t.1 = true ∧ T.isNum t.2.1 = true ∧ T.isNum t.2.2 = true
  am_rt : T.amOf (T.amStr [p.am]) = some [p.am] ∧ isAlphaStr (T.amStr [p.am]) = true
    ∧ (lower (T.amStr [p.am]) == "ul".toList) = false

theorem parseEcpTable_terms (T : EcpTables ν) (p : EPot ν) (ok : PotOK T p) :
    parseEcpTable T (p.terms.map fun t => [t.1, t.2.1, t.2.2])
      = .ok (p.terms.map (·.1), p.terms.map (·.2.1), p.terms.map (·.2.2)) := by
  unfold parseEcpTable
  have h1 : (p.terms.map fun t => [t.1, t.2.1, t.2.2]).any (fun r => r.length != 3) = false := by
    apply List.any_eq_false.2
    intro r hr
    obtain ⟨t, _, rfl⟩ := List.mem_map.1 hr
    simp
  have hr : (p.terms.map fun t => [t.1, t.2.1, t.2.2]).filterMap (·[0]?) = p.terms.map (·.1) := by
    rw [List.filterMap_map]; simp [Function.comp_def, List.filterMap_eq_map]
  have hg : (p.terms.map fun t => [t.1, t.2.1, t.2.2]).filterMap (·[1]?) = p.terms.map (·.2.1) := by
    rw [List.filterMap_map]; simp [Function.comp_def, List.filterMap_eq_map]
  have hc : (p.terms.map fun t => [t.1, t.2.1, t.2.2]).filterMap (·[2]?) = p.terms.map (·.2.2) := by
    rw [List.filterMap_map]; simp [Function.comp_def, List.filterMap_eq_map]
  have a1 : (p.terms.map (·.1)).all T.isInt = true := by
    apply List.all_eq_true.2; intro x hx; obtain ⟨t, ht, rfl⟩ := List.mem_map.1 hx; exact (ok.typed t ht).1
  have a2 : (p.terms.map (·.2.1)).all T.isNum = true := by
    apply List.all_eq_true.2; intro x hx; obtain ⟨t, ht, rfl⟩ := List.mem_map.1 hx; exact (ok.typed t ht).2.1
  have a3 : (p.terms.map (·.2.2)).all T.isNum = true := by
    apply List.all_eq_true.2; intro x hx; obtain ⟨t, ht, rfl⟩ := List.mem_map.1 hx; exact (ok.typed t ht).2.2
  simp only [h1, Bool.false_eq_true, if_false, hr, hg, hc, a1, a2, a3, Bool.not_true]

theorem ecpBlock_pot (T : EcpTables ν) (acc : EcpAcc ν) (z maxAm : Nat) (p : EPot ν) (ok : PotOK T p)
    (hz : T.zOf (T.symOf z) = some z ∧ isAlphaStr (T.symOf z) = true) :
    ecpBlock T acc (potBlock T z maxAm p) = .ok (addPot acc z (rawPot maxAm p)) := by
  have hrows : (p.terms.map fun t => [t.1, t.2.1, t.2.2]).isEmpty = false := by
    cases h : p.terms with
    | nil => exact absurd h ok.terms_ne
    | cons _ _ => rfl
  have hul : (lower "ul".toList == "ul".toList) = true := by decide +kernel
  have hulA : isAlphaStr "ul".toList = true := by decide +kernel
  unfold ecpBlock potBlock potLabel rawPot
  by_cases hm : p.am = maxAm
  · simp only [hrows, Bool.false_eq_true, if_false, hm, if_true, hz.2, hulA, Bool.and_self, Bool.not_true, hz.1, hul,
      parseEcpTable_terms T p ok]
  · simp only [hrows, Bool.false_eq_true, if_false, hm, hz.2, ok.am_rt.2.1, Bool.and_self, Bool.not_true, hz.1,
      ok.am_rt.2.2, ok.am_rt.1, parseEcpTable_terms T p ok]

theorem foldE_pots (T : EcpTables ν) (z maxAm : Nat) (hz : T.zOf (T.symOf z) = some z ∧ isAlphaStr (T.symOf z) = true)
    (ps : List (EPot ν)) (hok : ∀ p ∈ ps, PotOK T p) :
    ∀ (acc : EcpAcc ν) (ne : Option Str) (pre : List (RPot ν)), z ∉ acc.map (·.1) →
      ∀ (rest : List (List Str × List (List ν))),
      foldE (ecpBlock T) (acc ++ [(z, ne, pre)]) (ps.map (potBlock T z maxAm) ++ rest)
        = foldE (ecpBlock T) (acc ++ [(z, ne, pre ++ ps.map (rawPot maxAm))]) rest := by
  induction ps with
  | nil => intro acc ne pre _ rest; simp
  | cons p ps ih =>
    intro acc ne pre hz' rest
    simp only [List.map_cons, List.cons_append, foldE, ecpBlock_pot T _ z maxAm p (hok p (by simp)) hz,
      addPot_last acc z ne pre _ hz']
    rw [ih (fun q hq => hok q (by simp [hq])) acc ne (pre ++ [rawPot maxAm p]) hz' rest]
    simp

structure ElOK (T : EcpTables ν) (e : Nat × Str × List (EPot ν)) : Prop where
  sym : T.zOf (T.symOf e.1) = some e.1 ∧ isAlphaStr (T.symOf e.1) = true
  sym_lower : T.zOf (lower (T.symOf e.1)) = some e.1
  nelec : T.isDigits e.2.1 = true
  pots : ∀ p ∈ writeOrder e.2.2, PotOK T p

theorem ecpBlock_nelec (T : EcpTables ν) (acc : EcpAcc ν) (e : Nat × Str × List (EPot ν)) (ok : ElOK T e)
    (h : e.1 ∉ acc.map (·.1)) :
    ecpBlock T acc ([T.symOf e.1, "nelec".toList, e.2.1], []) = .ok (acc ++ [(e.1, some e.2.1, [])]) := by
  have hk : (lower "nelec".toList == "nelec".toList) = true := by decide +kernel
  unfold ecpBlock
  simp only [List.isEmpty_nil, if_true, ok.sym.2, hk, ok.nelec, Bool.and_self, Bool.not_true, Bool.false_eq_true, if_false,
    ok.sym_lower, setNelec_new acc e.1 e.2.1 h]

/-- the reader's state after the blocks of all elements -/
def rawEl (e : Nat × Str × List (EPot ν)) : Nat × Option Str × List (RPot ν) :=
  (e.1, some e.2.1, (writeOrder e.2.2).map (rawPot (maxAmOf e.2.2)))

theorem foldE_els (T : EcpTables ν) (els : List (Nat × Str × List (EPot ν))) :
    ∀ (acc : EcpAcc ν), ((acc.map (·.1)) ++ els.map (·.1)).Nodup → (∀ e ∈ els, ElOK T e) →
      foldE (ecpBlock T) acc (els.flatMap (elBlocks T)) = .ok (acc ++ els.map rawEl) := by
  induction els with
  | nil => intro acc _ _; simp [foldE]
  | cons e es ih =>
    intro acc hnd hok
    have hz : e.1 ∉ acc.map (·.1) := by
      intro hm
      have := (List.nodup_append.1 hnd).2.2 e.1 hm e.1 (by simp)
      exact this rfl
    have oke := hok e (by simp)
    simp only [List.flatMap_cons, elBlocks, List.cons_append, foldE, ecpBlock_nelec T acc e oke hz]
    have := foldE_pots T e.1 (maxAmOf e.2.2) oke.sym (writeOrder e.2.2) oke.pots acc (some e.2.1) [] hz (es.flatMap (elBlocks T))
    rw [this]
    have hnd' : (((acc ++ [rawEl e]).map (·.1)) ++ es.map (·.1)).Nodup := by
      simpa [rawEl, List.append_assoc] using hnd
    have := ih (acc ++ [rawEl e]) hnd' (fun e' he' => hok e' (by simp [he']))
    simp only [List.nil_append, rawEl] at this ⊢
    rw [this]
    simp [rawEl]

/-! ## the `ul` fix-up and the round trip -/

/-- the potential with its own momentum -/
def readPot (p : EPot ν) : RPot ν :=
  { am := some [p.am], rexp := p.terms.map (·.1), gexp := p.terms.map (·.2.1), coef := p.terms.map (·.2.2) }

/-- what the reader makes of the momentum of the `ul` potential: (highest other momentum) + 1 -/
def ulAm (rest : List (EPot ν)) : Nat :=
  match rest.map (·.am) with
  | [] => 0
  | a :: as => as.foldl max a + 1

theorem flatMap_raw_rest (maxAm : Nat) (rest : List (EPot ν)) (hrest : ∀ r ∈ rest, r.am ≠ maxAm) :
    (rest.map (rawPot maxAm)).flatMap (fun p => p.am.getD []) = rest.map (·.am) := by
  induction rest with
  | nil => rfl
  | cons r rs ih =>
    have hr : r.am ≠ maxAm := hrest r (by simp)
    simp only [List.map_cons, List.flatMap_cons, rawPot, hr, if_false, Option.getD_some, List.cons_append, List.nil_append]
    rw [← ih (fun r' hr' => hrest r' (by simp [hr']))]

theorem fixUl_written (maxAm : Nat) (top : EPot ν) (rest : List (EPot ν)) (htop : top.am = maxAm)
    (hrest : ∀ r ∈ rest, r.am ≠ maxAm) (hne : rest ≠ []) :
    fixUl ((top :: rest).map (rawPot maxAm))
      = .ok ({ readPot top with am := some [ulAm rest] } :: rest.map readPot) := by
  have hall : ((top :: rest).map (rawPot maxAm)).flatMap (fun p => p.am.getD []) = rest.map (·.am) := by
    rw [List.map_cons, List.flatMap_cons, flatMap_raw_rest maxAm rest hrest]
    simp [rawPot, htop]
  unfold fixUl
  simp only [hall]
  cases hra : rest.map (·.am) with
  | nil =>
    have : rest = [] := by simpa using hra
    exact absurd this hne
  | cons a as =>
    simp only [List.map_cons, rawPot, htop, if_true, readPot, ulAm, hra, List.map_map]
    congr 2
    apply List.map_congr_left
    intro r hr
    have hrm : r.am ≠ maxAm := hrest r hr
    simp [rawPot, readPot, hrm]

/-- what the reader returns for one written element: same potentials in write order, the first (`ul`) one with the
momentum the reader derives for it -/
def readEl (e : Nat × Str × List (EPot ν)) : Nat × Str × List (RPot ν) :=
  match writeOrder e.2.2 with
  | [] => (e.1, e.2.1, [])
  | top :: rest => (e.1, e.2.1, { readPot top with am := some [ulAm rest] } :: rest.map readPot)

structure ElShape (e : Nat × Str × List (EPot ν)) : Prop where
  /-- in write order: the highest momentum first, at least one other potential, no second potential of that momentum -/
  shape : ∃ top rest, writeOrder e.2.2 = top :: rest ∧ top.am = maxAmOf e.2.2 ∧ rest ≠ [] ∧ ∀ r ∈ rest, r.am ≠ maxAmOf e.2.2

theorem finishEcp_written (els : List (Nat × Str × List (EPot ν))) (hs : ∀ e ∈ els, ElShape e) :
    finishEcp (els.map rawEl) = .ok (els.map readEl) := by
  unfold finishEcp
  have h1 : mapR fixStep (els.map rawEl)
      = .ok (els.map fun e => ((readEl e).1, some (readEl e).2.1, (readEl e).2.2)) := by
    apply mapR_map
    intro e he
    obtain ⟨top, rest, hw, ht, hne, hr⟩ := (hs e he).shape
    simp only [fixStep, rawEl, readEl, hw, List.map_cons, List.isEmpty_cons, Bool.false_eq_true, if_false]
    have := fixUl_written (maxAmOf e.2.2) top rest ht hr hne
    simp only [List.map_cons] at this
    rw [this]
  rw [h1]
  simp only
  apply mapR_map
  intro e _
  rfl

/-- **NWChem ECP section: what reading gives back for what was written.**  Every element, electron count and potential
comes back, in write order, terms token for token; the momentum of every potential but the first is its own; the
momentum of the first (`ul`, the highest) is `ulAm` = (highest other momentum) + 1 — the format does not record it. -/
theorem readEcp_write (T : EcpTables ν) (els : List (Nat × Str × List (EPot ν)))
    (hnd : (els.map (·.1)).Nodup) (hok : ∀ e ∈ els, ElOK T e) (hs : ∀ e ∈ els, ElShape e) :
    readEcp T (ecpLines T els) = .ok (els.map readEl) := by
  have hlow : (lower "END".toList == "end".toList) = true := by decide +kernel
  have hend : isEnd (Line.head (ν := ν) ["END".toList]) = true := by simp only [isEnd]; exact hlow
  have hecp : (lower "ECP".toList == "end".toList) = false := by decide +kernel
  have hhdr : isEnd (Line.head (ν := ν) ["ECP".toList]) = false := by simp only [isEnd]; exact hecp
  have hbody : (els.flatMap (ecpElementLines T)).filter (fun l => !isEnd l) = els.flatMap (ecpElementLines T) := by
    apply List.filter_eq_self.2
    intro l hl
    obtain ⟨e, _, hle⟩ := List.mem_flatMap.1 hl
    simp only [ecpElementLines, List.mem_cons, List.mem_flatMap] at hle
    rcases hle with rfl | ⟨p, _, hlp⟩
    · simp [isEnd]
    · simp only [potLines, List.mem_cons, List.mem_map] at hlp
      rcases hlp with rfl | ⟨t, _, rfl⟩ <;> simp [isEnd]
  unfold readEcp ecpLines
  simp only [List.filter_cons, hhdr, Bool.not_false, if_true, List.filter_append, hbody, hend, Bool.not_true,
    Bool.false_eq_true, if_false, List.filter_nil, List.append_nil, blocksR_els, List.isEmpty_nil]
  rw [foldE_els T els [] (by simpa using hnd) hok]
  simp only [List.nil_append]
  exact finishEcp_written els hs

/-- **the round trip holds exactly when the highest momentum is one above the next** -/
theorem readEl_faithful_iff (e : Nat × Str × List (EPot ν)) (top : EPot ν) (rest : List (EPot ν))
    (hw : writeOrder e.2.2 = top :: rest) :
    readEl e = (e.1, e.2.1, (top :: rest).map readPot) ↔ top.am = ulAm rest := by
  simp only [readEl, hw, List.map_cons, readPot]
  constructor
  · intro h
    have := congrArg (fun x => x.2.2.head?.bind (·.am)) h
    simpa using this.symm
  · intro h
    rw [h]

/-! ## the write order is a permutation with the highest momentum first -/

theorem mem_insertPot (p x : EPot ν) (l : List (EPot ν)) : x ∈ insertPot p l ↔ x = p ∨ x ∈ l := by
  induction l with
  | nil => simp [insertPot]
  | cons q qs ih =>
    unfold insertPot
    split
    · simp
    · simp only [List.mem_cons, ih]
      constructor
      · rintro (h | h | h) <;> simp [h]
      · rintro (h | h | h) <;> simp [h]

theorem mem_sortPots (ps : List (EPot ν)) (x : EPot ν) : x ∈ ps.foldr insertPot [] ↔ x ∈ ps := by
  induction ps with
  | nil => simp
  | cons p ps ih => simp only [List.foldr_cons, mem_insertPot, ih, List.mem_cons]

theorem insertPot_sorted (p : EPot ν) (l : List (EPot ν)) (h : l.Pairwise (fun a b => a.am ≤ b.am)) :
    (insertPot p l).Pairwise (fun a b => a.am ≤ b.am) := by
  induction l with
  | nil => simp [insertPot]
  | cons q qs ih =>
    obtain ⟨hq, hqs⟩ := List.pairwise_cons.1 h
    unfold insertPot
    split
    · rename_i hlt
      refine List.pairwise_cons.2 ⟨?_, h⟩
      intro x hx
      rcases List.mem_cons.1 hx with rfl | hx'
      · omega
      · have := hq x hx'; omega
    · rename_i hge
      refine List.pairwise_cons.2 ⟨?_, ih hqs⟩
      intro x hx
      rcases (mem_insertPot p x qs).1 hx with rfl | hx'
      · omega
      · exact hq x hx'

theorem sortPots_sorted (ps : List (EPot ν)) : (ps.foldr insertPot []).Pairwise (fun a b => a.am ≤ b.am) := by
  induction ps with
  | nil => simp
  | cons p ps ih => exact insertPot_sorted p _ ih

theorem dropLast_of_getLast? {α : Type} (l : List α) (a : α) (h : l.getLast? = some a) : l.dropLast ++ [a] = l := by
  obtain ⟨ys, rfl⟩ := List.getLast?_eq_some_iff.1 h
  simp

theorem mem_writeOrder (ps : List (EPot ν)) (x : EPot ν) : x ∈ writeOrder ps ↔ x ∈ ps := by
  unfold writeOrder
  simp only
  cases hl : (ps.foldr insertPot []).getLast? with
  | none =>
    have : ps.foldr insertPot [] = [] := List.getLast?_eq_none_iff.1 hl
    have hx : x ∉ ps := fun hx => by
      have := (mem_sortPots ps x).2 hx
      rw [‹ps.foldr insertPot [] = []›] at this
      cases this
    simp [hx]
  | some top =>
    have hs := dropLast_of_getLast? _ top hl
    rw [← mem_sortPots ps x]
    generalize ps.foldr insertPot [] = S at hl hs ⊢
    constructor
    · intro h
      rw [← hs]
      rcases List.mem_cons.1 h with rfl | h
      · simp
      · simp [h]
    · intro h
      rw [← hs] at h
      rcases List.mem_append.1 h with h | h
      · exact List.mem_cons_of_mem _ h
      · simp at h; simp [h]

theorem foldl_max_le (l : List Nat) (m : Nat) (hle : ∀ x ∈ l, x ≤ m) : ∀ a, a ≤ m → l.foldl max a ≤ m := by
  induction l with
  | nil => intro a ha; simpa using ha
  | cons x xs ih =>
    intro a ha
    simp only [List.foldl_cons]
    exact ih (fun z hz => hle z (by simp [hz])) (max a x) (by have := hle x (by simp); omega)

theorem le_foldl_max (l : List Nat) : ∀ a, a ≤ l.foldl max a ∧ ∀ x ∈ l, x ≤ l.foldl max a := by
  induction l with
  | nil => intro a; simp
  | cons x xs ih =>
    intro a
    simp only [List.foldl_cons]
    obtain ⟨h1, h2⟩ := ih (max a x)
    refine ⟨by omega, ?_⟩
    intro y hy
    rcases List.mem_cons.1 hy with rfl | hy'
    · omega
    · exact h2 y hy'

theorem foldl_max_eq (l : List Nat) (m : Nat) (hm : m ∈ l) (hle : ∀ x ∈ l, x ≤ m) (a : Nat) (ha : a ≤ m) :
    l.foldl max a = m :=
  Nat.le_antisymm (foldl_max_le l m hle a ha) ((le_foldl_max l a).2 m hm)

/-- **`ElShape` from the natural hypotheses**: at least two potentials with pairwise different momenta -/
theorem elShape_of_distinct (e : Nat × Str × List (EPot ν)) (hn : (e.2.2.map (·.am)).Nodup) (h2 : 2 ≤ e.2.2.length) :
    ElShape e := by
  have hsorted := sortPots_sorted e.2.2
  have hlen : (e.2.2.foldr insertPot []).length = e.2.2.length := by
    generalize e.2.2 = ps
    induction ps with
    | nil => rfl
    | cons p ps ih =>
      simp only [List.foldr_cons, List.length_cons]
      have : ∀ (q : EPot ν) (l : List (EPot ν)), (insertPot q l).length = l.length + 1 := by
        intro q l
        induction l with
        | nil => rfl
        | cons r rs ihr => unfold insertPot; split <;> simp [ihr]
      rw [this, ih]
  cases hl : (e.2.2.foldr insertPot []).getLast? with
  | none =>
    have : e.2.2.foldr insertPot [] = [] := List.getLast?_eq_none_iff.1 hl
    rw [this] at hlen; simp at hlen; omega
  | some top =>
    have hs := dropLast_of_getLast? _ top hl
    have hw : writeOrder e.2.2 = top :: (e.2.2.foldr insertPot []).dropLast := by
      unfold writeOrder; simp only [hl]
    -- top is the maximum
    have htop_mem : top ∈ e.2.2 := (mem_sortPots e.2.2 top).1 (by rw [← hs]; simp)
    have hmax : ∀ x ∈ e.2.2, x.am ≤ top.am := by
      intro x hx
      have hx' := (mem_sortPots e.2.2 x).2 hx
      rw [← hs] at hx' hsorted
      rcases List.mem_append.1 hx' with h | h
      · exact (List.pairwise_append.1 hsorted).2.2 x h top (by simp)
      · simp at h; rw [h]; exact Nat.le_refl _
    have hmaxam : maxAmOf e.2.2 = top.am := by
      unfold maxAmOf
      exact foldl_max_eq _ top.am (List.mem_map.2 ⟨top, htop_mem, rfl⟩)
        (by intro x hx; obtain ⟨p, hp, rfl⟩ := List.mem_map.1 hx; exact hmax p hp) 0 (Nat.zero_le _)
    refine ⟨top, (e.2.2.foldr insertPot []).dropLast, hw, hmaxam.symm, ?_, ?_⟩
    · intro h0
      have : (e.2.2.foldr insertPot []).length = 1 := by rw [← hs, h0]; simp
      omega
    · -- no other potential has the top momentum (momenta pairwise different)
      intro r hr heq
      rw [hmaxam] at heq
      -- r and top are different positions of the sorted list, which is a permutation-with-distinct-momenta
      have hnd : ((e.2.2.foldr insertPot []).map (·.am)).Nodup := by
        have hperm : (e.2.2.foldr insertPot []).Perm e.2.2 := by
          generalize e.2.2 = ps
          induction ps with
          | nil => exact List.Perm.refl _
          | cons p ps ih =>
            simp only [List.foldr_cons]
            have hins : ∀ (q : EPot ν) (l : List (EPot ν)), (insertPot q l).Perm (q :: l) := by
              intro q l
              induction l with
              | nil => exact List.Perm.refl _
              | cons r rs ihr =>
                unfold insertPot
                split
                · exact List.Perm.refl _
                · exact (List.Perm.cons r ihr).trans (List.Perm.swap q r rs)
            exact (hins p _).trans (List.Perm.cons p ih)
        exact (List.Perm.nodup_iff (hperm.map (·.am))).2 hn
      rw [← hs, List.map_append, List.nodup_append] at hnd
      exact hnd.2.2 r.am (List.mem_map.2 ⟨r, hr, rfl⟩) top.am (by simp) heq

end BSE.Nwchem
