import BSEModel.Manip
import BSEModel.ManipOps
import BSEModel.PruneFuncs

/-! # `sort_shell` / `sort_shells` keep the set of contracted functions

Reordering the primitives of a shell (with every coefficient column reordered the same way), reordering the
columns of a single-momentum shell and reordering the shells of an element only permute — the set of
`(momentum, radial function)` pairs is unchanged. -/

namespace BSE
variable {ν : Type}

theorem perm_sum_rat {l₁ l₂ : List Rat} (p : l₁.Perm l₂) : l₁.sum = l₂.sum := by
  induction p with
  | nil => rfl
  | cons x _ ih => simp [ih]
  | swap x y l => simp only [List.sum_cons]; grind
  | trans _ _ ih1 ih2 => exact ih1.trans ih2

/-- reading a list back through all its indices gives the list -/
theorem filterMap_range_getElem? {α : Type} (xs : List α) :
    (List.range xs.length).filterMap (xs[·]?) = xs := by
  induction xs with
  | nil => rfl
  | cons a xs ih =>
    rw [List.length_cons, List.range_succ_eq_map, List.filterMap_cons, List.filterMap_map]
    simpa [Function.comp_def] using ih

/-- reading through a permutation of the indices gives a permutation of the list -/
theorem perm_filterMap_idx {α : Type} (xs : List α) (idx : List Nat) (h : idx.Perm (List.range xs.length)) :
    (idx.filterMap (xs[·]?)).Perm xs := by
  have := h.filterMap (xs[·]?)
  rwa [filterMap_range_getElem?] at this

/-- reading two equally long lists through the same in-range indices and zipping = reading the zip -/
theorem zip_filterMap_idx {α β : Type} (xs : List α) (ys : List β) (hl : ys.length = xs.length) (idx : List Nat)
    (hin : ∀ i ∈ idx, i < xs.length) :
    (idx.filterMap (xs[·]?)).zip (idx.filterMap (ys[·]?)) = idx.filterMap ((xs.zip ys)[·]?) := by
  induction idx with
  | nil => rfl
  | cons i r ih =>
    have hi : i < xs.length := hin i (by simp)
    have hi' : i < ys.length := by omega
    have hz : i < (xs.zip ys).length := by simp; omega
    have ih' := ih (fun j hj => hin j (by simp [hj]))
    simp only [List.filterMap_cons, List.getElem?_eq_getElem hi, List.getElem?_eq_getElem hi',
      List.getElem?_eq_getElem hz, List.zip_cons_cons, ih', List.getElem_zip]

def permBy {α : Type} (idx : List Nat) (xs : List α) : List α := idx.filterMap (xs[·]?)

theorem colFn_reorder (val : ν → Rat) (exps col : List ν) (hl : col.length = exps.length) (idx : List Nat)
    (h : idx.Perm (List.range exps.length)) (x : Rat) :
    colFn val (permBy idx exps) (permBy idx col) x = colFn val exps col x := by
  unfold colFn permBy
  rw [zip_filterMap_idx exps col hl idx (fun i hi => List.mem_range.1 ((h.mem_iff).1 hi))]
  apply perm_sum_rat
  apply List.Perm.map
  have hz : (exps.zip col).length = exps.length := by simp; omega
  exact perm_filterMap_idx (exps.zip col) idx (by rw [hz]; exact h)

theorem sortIdx_perm (n : Nat) (le : Nat → Nat → Bool) : (sortIdx n le).Perm (List.range n) :=
  List.mergeSort_perm _ _

def zIdx (val : ν → Rat) (sh : Shell ν) : List Nat :=
  sortIdx sh.exps.length (fun i j => decide (((sh.exps[i]?).map val).getD 0 ≥ ((sh.exps[j]?).map val).getD 0))

def cIdx (rsq : List Rat) (sh : Shell ν) : List Nat :=
  if sh.am.length = 1 then sortIdx rsq.length (fun i j => decide (keyAt rsq i ≤ keyAt rsq j))
  else List.range sh.coefs.length

theorem sortShell_exps (val : ν → Rat) (rsq : List Rat) (sh : Shell ν) :
    (sortShell val rsq sh).exps = permBy (zIdx val sh) sh.exps := rfl

theorem sortShell_am (val : ν → Rat) (rsq : List Rat) (sh : Shell ν) : (sortShell val rsq sh).am = sh.am := rfl

theorem sortShell_coefs (val : ν → Rat) (rsq : List Rat) (sh : Shell ν) :
    (sortShell val rsq sh).coefs = (permBy (cIdx rsq sh) sh.coefs).map (permBy (zIdx val sh)) := by
  unfold permBy
  rw [List.map_filterMap]
  rfl

theorem zipWith_congr_mem {α β γ : Type} (f g : α → β → γ) (as : List α) :
    ∀ (bs : List β), (∀ b ∈ bs, ∀ a, f a b = g a b) → List.zipWith f as bs = List.zipWith g as bs := by
  induction as with
  | nil => intro bs _; simp
  | cons a as ih =>
    intro bs h
    cases bs with
    | nil => simp
    | cons b br =>
      simp only [List.zipWith_cons_cons]
      rw [h b (by simp) a, ih br (fun b' hb' a' => h b' (by simp [hb']) a')]

/-- **`sort_shell` keeps the functions of the shell** (as a set): `rsq` are the externally supplied column keys -/
theorem mem_funcs_sortShell (val : ν → Rat) (rsq : List Rat) (sh : Shell ν) (hr : RectShell sh)
    (hk : sh.am.length = 1 → rsq.length = sh.coefs.length) (f : Func) :
    f ∈ (sortShell val rsq sh).funcs val ↔ f ∈ sh.funcs val := by
  have hz : (zIdx val sh).Perm (List.range sh.exps.length) := sortIdx_perm _ _
  have hP : ∀ c ∈ sh.coefs, colFn val (permBy (zIdx val sh) sh.exps) (permBy (zIdx val sh) c) = colFn val sh.exps c := by
    intro c hc; funext x; exact colFn_reorder val sh.exps c (hr c hc) _ hz x
  have hc : (cIdx rsq sh).Perm (List.range sh.coefs.length) := by
    unfold cIdx
    split
    · next h1 => rw [← hk h1]; exact sortIdx_perm _ _
    · exact List.Perm.refl _
  have hperm : (permBy (cIdx rsq sh) sh.coefs).Perm sh.coefs := perm_filterMap_idx sh.coefs _ hc
  unfold Shell.funcs
  rw [sortShell_exps, sortShell_coefs, sortShell_am]
  by_cases hg : sh.am.length > 1
  · -- fused: the column order is untouched
    have hid : permBy (cIdx rsq sh) sh.coefs = sh.coefs := by
      unfold cIdx permBy
      rw [if_neg (by omega)]
      exact filterMap_range_getElem? _
    simp only [hg, if_true, hid, List.zipWith_map_right]
    rw [zipWith_congr_mem _ (fun a c => (a, colFn val sh.exps c)) sh.am sh.coefs (fun c hcm a => by rw [hP c hcm])]
  · simp only [hg, if_false, List.mem_map]
    constructor
    · rintro ⟨c', ⟨c, hc', rfl⟩, rfl⟩
      have hcm := (hperm.mem_iff).1 hc'
      exact ⟨c, hcm, by rw [← hP c hcm]⟩
    · rintro ⟨c, hcm, rfl⟩
      exact ⟨permBy (zIdx val sh) c, ⟨c, (hperm.mem_iff).2 hcm, rfl⟩, by rw [← hP c hcm]⟩

/-- **`sort_shells` keeps the set of contracted functions of the element** -/
theorem funcSet_sortShells (val : ν → Rat) (keyed : List (Shell ν × List Rat × Rat))
    (hw : ∀ t ∈ keyed, RectShell t.1 ∧ (t.1.am.length = 1 → t.2.1.length = t.1.coefs.length)) (f : Func) :
    funcSet val (sortShells val keyed) f ↔ funcSet val (keyed.map (·.1)) f := by
  unfold funcSet sortShells
  simp only [List.mem_map]
  constructor
  · rintro ⟨sh, ⟨t, ht, rfl⟩, hf⟩
    have ht' := ((List.mergeSort_perm _ _).mem_iff).1 ht
    obtain ⟨t0, ht0, rfl⟩ := List.mem_map.1 ht'
    exact ⟨t0.1, ⟨t0, ht0, rfl⟩, (mem_funcs_sortShell val t0.2.1 t0.1 (hw t0 ht0).1 (hw t0 ht0).2 f).1 hf⟩
  · rintro ⟨sh, ⟨t0, ht0, rfl⟩, hf⟩
    refine ⟨sortShell val t0.2.1 t0.1, ⟨(sortShell val t0.2.1 t0.1, t0.1.am.foldl max 0, t0.2.2), ?_, rfl⟩, ?_⟩
    · exact ((List.mergeSort_perm _ _).mem_iff).2 (List.mem_map.2 ⟨t0, ht0, rfl⟩)
    · exact (mem_funcs_sortShell val t0.2.1 t0.1 (hw t0 ht0).1 (hw t0 ht0).2 f).2 hf

end BSE
