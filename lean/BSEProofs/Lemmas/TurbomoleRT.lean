import BSEModel.Turbomole
import BSEProofs.Lemmas.G94RT

/-! # Turbomole electron section: reading what was written gives the shells back -/

namespace BSE.Turbomole
open BSE
open BSE.Nwchem (Str RErr RShell EShell Tables isAlphaStr ShellOK toR rows_of_shell mapR mapR_map)
variable {ν : Type}

/-! ## generic partition facts -/

theorem splitAt_none {α : Type} (cond : α → Bool) (l rest : List α) (h : ∀ x ∈ l, cond x = false) :
    splitAt cond (l ++ rest) = (l ++ (splitAt cond rest).1, (splitAt cond rest).2) := by
  induction l with
  | nil => simp
  | cons a as ih =>
    have ha : cond a = false := h a (by simp)
    simp only [List.cons_append, splitAt, ha, Bool.false_eq_true, if_false, ih (fun x hx => h x (by simp [hx]))]

theorem splitAt_hit {α : Type} (cond : α → Bool) (x : α) (rest : List α) (h : cond x = true) :
    splitAt cond (x :: rest) = ([], (x :: (splitAt cond rest).1) :: (splitAt cond rest).2) := by
  simp [splitAt, h]

/-- blocks that each start with a match and contain no other match split back into themselves -/
theorem splitAt_blocks {α : Type} (cond : α → Bool) (blocks : List (α × List α))
    (hhead : ∀ b ∈ blocks, cond b.1 = true) (htail : ∀ b ∈ blocks, ∀ x ∈ b.2, cond x = false) :
    splitAt cond (blocks.flatMap fun b => b.1 :: b.2) = ([], blocks.map fun b => b.1 :: b.2) := by
  induction blocks with
  | nil => rfl
  | cons b bs ih =>
    have ihb := ih (fun b' hb' => hhead b' (by simp [hb'])) (fun b' hb' => htail b' (by simp [hb']))
    simp only [List.flatMap_cons, List.cons_append, List.map_cons]
    rw [splitAt_hit cond b.1 _ (hhead b (by simp)), splitAt_none cond b.2 _ (htail b (by simp)), ihb]
    simp

theorem stealOne_blocks {α : Type} (last : α) (blocks : List (List α)) (hne : blocks ≠ []) :
    ∀ (pre : List α), stealOne (pre ++ [last]) ((blocks.dropLast.map fun b => b ++ [last]) ++ blocks.getLast?.toList)
      = pre :: blocks.map (fun b => last :: b) := by
  induction blocks with
  | nil => exact absurd rfl hne
  | cons b bs ih =>
    intro pre
    cases bs with
    | nil => simp [stealOne]
    | cons c cs =>
      have h := ih (by simp) (last :: b)
      simp only [List.dropLast_cons_cons, List.map_cons, List.getLast?_cons_cons, List.cons_append, stealOne,
        List.dropLast_concat, List.getLast?_concat, Option.toList_some, List.singleton_append] at h ⊢
      have e : last :: ([] ++ (b ++ [last])) = last :: (b ++ [last]) := by simp
      rw [e, h]

theorem flatten_dropLast_blocks {α : Type} (last : α) (L : List (List α)) (hne : L ≠ []) :
    (L.map (· ++ [last])).flatten
      = ((L.dropLast.map fun b => b ++ [last]) ++ L.getLast?.toList).flatten ++ [last] := by
  induction L with
  | nil => exact absurd rfl hne
  | cons b bs ih =>
    cases bs with
    | nil => simp
    | cons c cs =>
      have h := ih (by simp)
      simp only [List.map_cons, List.flatten_cons, List.dropLast_cons_cons, List.getLast?_cons_cons, List.cons_append,
        List.append_assoc] at h ⊢
      rw [h]

/-! ## the written section -/

/-- an element block without its closing `*` -/
def elemBlock (T : TTables ν) (name : Str) (e : Nat × List (EShell ν)) : List (TLine ν) :=
  .elem (T.symOf e.1) name :: .star :: e.2.flatMap (shellLinesT T)

theorem electronLinesT_eq (T : TTables ν) (name : Str) (els : List (Nat × List (EShell ν))) :
    electronLinesT T name els = .star :: ((els.map (elemBlock T name)).map (· ++ [TLine.star])).flatten := by
  unfold electronLinesT
  congr 1
  induction els with
  | nil => rfl
  | cons e es ih =>
    simp only [List.flatMap_cons, List.map_cons, List.flatten_cons, ih, elementLinesT, elemBlock, List.cons_append]

theorem shellLines_no_elem (T : TTables ν) (shells : List (EShell ν)) :
    ∀ x ∈ shells.flatMap (shellLinesT T), isElem x = false ∧ isStarLike x = false := by
  intro x hx
  obtain ⟨sh, _, hsh⟩ := List.mem_flatMap.1 hx
  simp only [shellLinesT, List.mem_cons, List.mem_map] at hsh
  rcases hsh with rfl | ⟨r, _, rfl⟩ <;> simp [isElem, isStarLike]

/-- the raw blocks `partition_lines(…, element_re)` finds, before the `before=1` step -/
def rawBlocksT (T : TTables ν) (name : Str) (els : List (Nat × List (EShell ν))) : List (List (TLine ν)) :=
  ((els.map (elemBlock T name)).dropLast.map fun b => b ++ [TLine.star]) ++ (els.map (elemBlock T name)).getLast?.toList

theorem splitAt_raw (T : TTables ν) (name : Str) (els : List (Nat × List (EShell ν))) :
    splitAt isElem (rawBlocksT T name els).flatten = ([], rawBlocksT T name els) := by
  -- every raw block is an element line followed by lines that are not element lines
  have hshape : ∀ b ∈ rawBlocksT T name els, ∃ h t, b = h :: t ∧ isElem h = true ∧ ∀ x ∈ t, isElem x = false := by
    intro b hb
    unfold rawBlocksT at hb
    rcases List.mem_append.1 hb with hb | hb
    · obtain ⟨b0, hb0, rfl⟩ := List.mem_map.1 hb
      obtain ⟨e, _, rfl⟩ := List.mem_map.1 (List.dropLast_subset _ hb0)
      refine ⟨.elem (T.symOf e.1) name, .star :: (e.2.flatMap (shellLinesT T) ++ [.star]), rfl, rfl, ?_⟩
      intro x hx
      simp only [List.mem_cons, List.mem_append, List.not_mem_nil, or_false] at hx
      rcases hx with rfl | hx | rfl
      · rfl
      · exact (shellLines_no_elem T e.2 x hx).1
      · rfl
    · have hb' : b ∈ els.map (elemBlock T name) := by
        have := Option.mem_toList.1 hb
        exact List.mem_of_getLast? this
      obtain ⟨e, _, rfl⟩ := List.mem_map.1 hb'
      refine ⟨.elem (T.symOf e.1) name, .star :: e.2.flatMap (shellLinesT T), rfl, rfl, ?_⟩
      intro x hx
      simp only [List.mem_cons] at hx
      rcases hx with rfl | hx
      · rfl
      · exact (shellLines_no_elem T e.2 x hx).1
  generalize rawBlocksT T name els = R at hshape
  induction R with
  | nil => rfl
  | cons b bs ih =>
    obtain ⟨h, t, rfl, hh, ht⟩ := hshape b (by simp)
    have ihb := ih (fun b' hb' => hshape b' (by simp [hb']))
    simp only [List.flatten_cons, List.cons_append]
    rw [splitAt_hit isElem h _ hh, splitAt_none isElem t _ ht, ihb]
    simp

/-! ## shells and elements -/

structure TShellOK (T : TTables ν) (sh : EShell ν) : Prop where
  base : ShellOK T.toTables sh
  one_col : sh.coefs.length = 1
  count_rt : T.natOf (T.natStr sh.exps.length) = some sh.exps.length

theorem mapR_rowToks (T : TTables ν) (rows : List (List ν)) (h2 : ∀ r ∈ rows, r.length = 2) :
    mapR (rowToks T) (rows.map TLine.row) = .ok rows := by
  have := mapR_map (rowToks T) TLine.row (fun r => r) rows (by
    intro r hr
    have hl := h2 r hr
    match r, hl with
    | [e, c], _ => rfl)
  simpa using this

theorem parseMatrix_one (T : Tables ν) (sh : EShell ν) (ok : ShellOK T sh) (h1c : sh.coefs.length = 1) :
    Nwchem.parseMatrix T (zipStar (sh.exps :: sh.coefs)) (some 1) = .ok (sh.exps, sh.coefs) := by
  obtain ⟨hhead, htail, hlen, hn⟩ := rows_of_shell sh.exps sh.coefs ok.coefs_ne ok.rect ok.exps_ne
  have hrect : Rect sh.exps.length (sh.exps :: sh.coefs) := by
    intro c hc
    rcases List.mem_cons.1 hc with rfl | h
    · rfl
    · exact ok.rect c h
  have hnum : ∀ r ∈ zipStar (sh.exps :: sh.coefs), ∀ x ∈ r, T.isNum x = true := by
    intro r hr x hx
    rw [zipStar_closed (m := sh.exps :: sh.coefs) (by simp) hrect] at hr
    obtain ⟨i, _, rfl⟩ := List.mem_map.1 hr
    obtain ⟨c, hc, hcx⟩ := List.mem_filterMap.1 hx
    have hxc : x ∈ c := List.mem_of_getElem? hcx
    rcases List.mem_cons.1 hc with rfl | hc'
    · exact ok.nums.1 x hxc
    · exact ok.nums.2 c hc' x hxc
  have hcoefpos : 0 < sh.coefs.length := List.length_pos_iff.2 ok.coefs_ne
  unfold Nwchem.parseMatrix
  have h1 : (zipStar (sh.exps :: sh.coefs)).any (Nwchem.badRow T) = false := by
    apply List.any_eq_false.2
    intro r hr
    have hl := hlen r hr
    cases r with
    | nil => simp at hl
    | cons e c =>
      have he := hnum _ hr e (by simp)
      have hc : c.all T.isNum = true := List.all_eq_true.2 (fun x hx => hnum _ hr x (by simp [hx]))
      simp [Nwchem.badRow, he, hc]
  rw [h1]
  simp only [Bool.false_eq_true, if_false]
  have hrows_ne : zipStar (sh.exps :: sh.coefs) ≠ [] := by
    intro h0; rw [h0] at hn; simp at hn; have := ok.exps_ne; omega
  have h2 : ((zipStar (sh.exps :: sh.coefs)).map List.tail).any
      (fun c => c.isEmpty || c.length != (((zipStar (sh.exps :: sh.coefs)).map List.tail).headD []).length) = false := by
    have hall : ∀ c ∈ (zipStar (sh.exps :: sh.coefs)).map List.tail, c.length = sh.coefs.length := by
      intro c hc
      obtain ⟨r, hr, rfl⟩ := List.mem_map.1 hc
      have := hlen r hr
      simp [this]
    apply List.any_eq_false.2
    intro c hc
    have hcl := hall c hc
    have hhd : (((zipStar (sh.exps :: sh.coefs)).map List.tail).headD []).length = sh.coefs.length := by
      cases hz : zipStar (sh.exps :: sh.coefs) with
      | nil => exact absurd hz hrows_ne
      | cons r rs =>
        simp only [List.map_cons, List.headD_cons]
        exact hall _ (by rw [hz]; simp)
    have hcne : c ≠ [] := by intro h0; rw [h0] at hcl; simp at hcl; omega
    have hce : c.isEmpty = false := by cases c <;> simp at hcne ⊢
    rw [hce, hcl, hhd]
    simp
  rw [h2]
  simp only [Bool.false_eq_true, if_false, htail]
  have h3 : ((zipStar (sh.exps :: sh.coefs)).isEmpty || sh.coefs.isEmpty) = false := by
    simp [hrows_ne, ok.coefs_ne]
  rw [h3]
  simp only [Bool.false_eq_true, if_false, hhead]
  simp [h1c]

theorem parseShellT_written (T : TTables ν) (sh : EShell ν) (ok : TShellOK T sh) :
    parseShellT T (shellLinesT T sh) = .ok (toR T.toTables true sh) := by
  obtain ⟨_, _, hlen, hn⟩ := rows_of_shell sh.exps sh.coefs ok.base.coefs_ne ok.base.rect ok.base.exps_ne
  have hrows2 : ∀ r ∈ zipStar (sh.exps :: sh.coefs), r.length = 2 := by
    intro r hr; rw [hlen r hr, ok.one_col]
  have hne : ((zipStar (sh.exps :: sh.coefs)).map (TLine.row (ν := ν))).isEmpty = false := by
    cases h0 : zipStar (sh.exps :: sh.coefs) with
    | nil => rw [h0] at hn; simp at hn; have := ok.base.exps_ne; omega
    | cons _ _ => rfl
  unfold parseShellT shellLinesT
  simp only [hne, Bool.false_eq_true, if_false, ok.count_rt, ok.base.am_rt.1, mapR_rowToks T _ hrows2,
    parseMatrix_one T.toTables sh ok.base ok.one_col, bne_self_eq_false, toR]

theorem splitAt_shells (T : TTables ν) (shells : List (EShell ν)) :
    splitAt isShell (shells.flatMap (shellLinesT T)) = ([], shells.map (shellLinesT T)) := by
  have := splitAt_blocks (isShell (ν := ν))
    (shells.map fun sh => (TLine.shell (T.natStr sh.exps.length) (T.amStr sh.am), (zipStar (sh.exps :: sh.coefs)).map TLine.row))
    (by intro b hb; obtain ⟨sh, _, rfl⟩ := List.mem_map.1 hb; rfl)
    (by
      intro b hb x hx
      obtain ⟨sh, _, rfl⟩ := List.mem_map.1 hb
      obtain ⟨r, _, rfl⟩ := List.mem_map.1 hx
      rfl)
  have e1 : shells.flatMap (shellLinesT T) = (shells.map fun sh => (TLine.shell (T.natStr sh.exps.length) (T.amStr sh.am), (zipStar (sh.exps :: sh.coefs)).map TLine.row)).flatMap (fun b => b.1 :: b.2) := by
    rw [List.flatMap_map]; rfl
  have e2 : shells.map (shellLinesT T) = (shells.map fun sh => (TLine.shell (T.natStr sh.exps.length) (T.amStr sh.am), (zipStar (sh.exps :: sh.coefs)).map TLine.row)).map (fun b => b.1 :: b.2) := by
    rw [List.map_map]; rfl
  rw [e1, e2]; exact this

structure ElemOK (T : TTables ν) (e : Nat × List (EShell ν)) : Prop where
  sym : T.zOf (T.symOf e.1) = some e.1
  shells_ne : e.2 ≠ []
  shells : ∀ sh ∈ e.2, TShellOK T sh

theorem parseElementT_written (T : TTables ν) (name : Str) (e : Nat × List (EShell ν)) (ok : ElemOK T e) :
    parseElementT T (TLine.star :: elemBlock T name e) = .ok (e.1, e.2.map (toR T.toTables true)) := by
  unfold parseElementT elemBlock
  have hnostar : (e.2.flatMap (shellLinesT T)).any isStarLike = false := by
    apply List.any_eq_false.2
    intro x hx
    have := (shellLines_no_elem T e.2 x hx).2
    simp [this]
  simp only [isStar, Bool.and_self, Bool.not_true, Bool.false_eq_true, if_false, hnostar, ok.sym, splitAt_shells,
    List.isEmpty_nil, if_true]
  rw [mapR_map (parseShellT T) (shellLinesT T) (toR T.toTables true) e.2
    (fun sh hsh => parseShellT_written T sh (ok.shells sh hsh))]

theorem hasDupKey_false {α : Type} (l : List (Nat × α)) (h : (l.map (·.1)).Nodup) : hasDupKey l = false := by
  induction l with
  | nil => rfl
  | cons x xs ih =>
    have h' : (x.1 :: xs.map (·.1)).Nodup := h
    obtain ⟨hx, hxs⟩ := List.nodup_cons.1 h'
    have hany : (xs.any fun y => y.1 == x.1) = false := by
      apply List.any_eq_false.2
      intro y hy
      have : y.1 ≠ x.1 := fun heq => hx (List.mem_map.2 ⟨y, hy, heq⟩)
      simpa using this
    simp only [hasDupKey, hany, ih hxs, Bool.or_false]

/-- **Turbomole electron section: read(write(elements)) = elements** — every element in order, every shell in order,
momenta / exponents / coefficients token for token -/
theorem readElectronT_write (T : TTables ν) (name : Str) (els : List (Nat × List (EShell ν))) (hne : els ≠ [])
    (hnd : (els.map (·.1)).Nodup) (hok : ∀ e ∈ els, ElemOK T e) :
    readElectronT T (electronLinesT T name els) = .ok (els.map fun e => (e.1, e.2.map (toR T.toTables true))) := by
  have hM : els.map (elemBlock T name) ≠ [] := by simpa using hne
  rw [electronLinesT_eq, flatten_dropLast_blocks TLine.star _ hM]
  show readElectronT T (TLine.star :: ((rawBlocksT T name els).flatten ++ [TLine.star])) = _
  unfold readElectronT
  have hrev : (TLine.star :: ((rawBlocksT T name els).flatten ++ [TLine.star (ν := ν)])).reverse
      = TLine.star :: (TLine.star :: (rawBlocksT T name els).flatten).reverse := by simp
  rw [hrev]
  simp only [List.reverse_reverse]
  have hsplit : splitAt isElem (TLine.star (ν := ν) :: (rawBlocksT T name els).flatten) = ([TLine.star], rawBlocksT T name els) := by
    simp [splitAt, isElem, splitAt_raw]
  rw [hsplit]
  simp only [List.isEmpty_cons, Bool.false_eq_true, if_false]
  have hraw_ne : rawBlocksT T name els ≠ [] := by
    unfold rawBlocksT
    cases hl : (els.map (elemBlock T name)).getLast? with
    | none => exact absurd (List.getLast?_eq_none_iff.1 hl) hM
    | some x => simp
  cases hr : rawBlocksT T name els with
  | nil => exact absurd hr hraw_ne
  | cons b2 more =>
    simp only [List.length_singleton, bne_self_eq_false, Bool.false_eq_true, if_false]
    rw [← hr]
    have hst := stealOne_blocks (TLine.star (ν := ν)) (els.map (elemBlock T name)) hM []
    simp only [List.nil_append] at hst
    have hst' : stealOne [TLine.star (ν := ν)] (rawBlocksT T name els) = [] :: (els.map (elemBlock T name)).map (fun b => TLine.star :: b) := hst
    rw [hst', List.tail_cons, List.map_map]
    -- sizes and the `*` lines
    have hlen : ((els.map ((fun b => TLine.star :: b) ∘ elemBlock T name)).any fun b => decide (b.length < 4)) = false := by
      apply List.any_eq_false.2
      intro b hb
      obtain ⟨e, he, rfl⟩ := List.mem_map.1 hb
      have hs := (hok e he).shells_ne
      cases hsh : e.2 with
      | nil => exact absurd hsh hs
      | cons sh shs => simp [elemBlock, hsh, shellLinesT]
    have hstars : (els.map ((fun b => TLine.star :: b) ∘ elemBlock T name)).any badStars = false := by
      apply List.any_eq_false.2
      intro b hb
      obtain ⟨e, _, rfl⟩ := List.mem_map.1 hb
      have hnostar : (e.2.flatMap (shellLinesT T)).any isStarLike = false := by
        apply List.any_eq_false.2
        intro x hx
        have := (shellLines_no_elem T e.2 x hx).2
        simp [this]
      simp [badStars, elemBlock, isStar, hnostar]
    rw [hlen, hstars]
    simp only [Bool.false_eq_true, if_false]
    rw [mapR_map (parseElementT T) ((fun b => TLine.star :: b) ∘ elemBlock T name)
      (fun e => (e.1, e.2.map (toR T.toTables true))) els (fun e he => parseElementT_written T name e (hok e he))]
    simp only
    rw [hasDupKey_false _ (by simpa [List.map_map, Function.comp_def] using hnd)]
    simp

end BSE.Turbomole
