import BSEProofs.Lemmas.PruneValid
import BSEModel.ManipOps

/-! # `uncontract_segmented` of a valid element is a valid element -/

namespace BSE
open BSE.Props.C18
variable {ν : Type}

theorem zipStar_replicate_singleton (one : ν) (k : Nat) (hk : 0 < k) :
    zipStar (List.replicate k [one]) = [List.replicate k one] := by
  have hr : Rect 1 (List.replicate k [one]) := by
    intro c hc; rw [List.eq_of_mem_replicate hc]; rfl
  have hne : List.replicate k [one] ≠ [] := by
    intro h; have := congrArg List.length h; simp at this; omega
  rw [zipStar_closed hne hr]
  simp only [List.range_one, List.map_cons, List.map_nil]
  congr 1
  induction k with
  | zero => omega
  | succ n ih =>
    cases n with
    | zero => rfl
    | succ m =>
      have := ih (by omega) (by intro c hc; rw [List.eq_of_mem_replicate hc]; rfl) (by simp)
      simp only [List.replicate_succ, List.filterMap_cons] at this ⊢
      simpa using this

/-- every shell `uncontract_segmented` makes from a valid shell is valid: one primitive, a unit coefficient per
momentum of the shell -/
theorem uncontractSegmented_shell_valid (val : ν → Rat) (one : ν) (h1 : val one = 1) (sh : Shell ν) (v : ValidShell val sh)
    (e : ν) (he : e ∈ sh.exps) :
    ValidShell val { sh with exps := [e], coefs := List.replicate sh.am.length [one] } := by
  have hk : 0 < sh.am.length := List.length_pos_iff.2 v.am_nonempty
  have hone : val one ≠ 0 := by rw [h1]; decide
  refine ⟨v.am_nonempty, by simp, v.tag_high, v.tag_low, by simp, ?_, ?_, ?_, ?_, ?_⟩
  · intro x hx
    simp only [List.map_cons, List.map_nil, List.mem_singleton] at hx
    subst hx
    exact v.positive (val e) (List.mem_map.2 ⟨e, he, rfl⟩)
  · intro g hg
    rw [List.eq_of_mem_replicate hg]
    exact ⟨rfl, one, by simp, hone⟩
  · intro hl
    simp only at hl ⊢
    rw [hl]
    simp
  · intro r hr
    simp only [rowsOf] at hr
    rw [zipStar_replicate_singleton one _ hk] at hr
    simp only [List.mem_singleton] at hr
    subst hr
    exact ⟨one, List.mem_replicate.2 ⟨by omega, rfl⟩, hone⟩
  · intro _
    simp

theorem uncontractSegmented_members (one : ν) (shells : List (Shell ν)) (s : Shell ν) (hs : s ∈ uncontractSegmented one shells) :
    ∃ sh ∈ shells, ∃ e ∈ sh.exps, s = { sh with exps := [e], coefs := List.replicate sh.am.length [one] } := by
  unfold uncontractSegmented at hs
  obtain ⟨sh, hsh, hin⟩ := List.mem_flatMap.1 hs
  obtain ⟨e, he, rfl⟩ := List.mem_map.1 hin
  exact ⟨sh, hsh, e, he, rfl⟩

end BSE
