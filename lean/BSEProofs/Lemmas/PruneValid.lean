import BSEModel.PruneFuncs
import BSEModel.Validator
import BSEProofs.Lemmas.PruneFull
import BSEProofs.Lemmas.SortPerm
import BSEProofs.Props.C18

/-! # What `prune_shell` hands out satisfies the validator's rules

`pruneShell_valid`: a shell that is semantically well-formed (`SemWF`), carries the right spherical/cartesian tag and
has positive exponents comes out of `prune_shell` satisfying **every** rule of `_validate_electron_shells` except
possibly "no duplicate contraction" (which merging equal exponents can create); with a single contraction that rule
is vacuous, which gives full validity of everything `uncontract_general` returns. -/

namespace BSE
variable {ν : Type} {α : Type}

/-! ## matrix facts -/

theorem filterMap_congr_mem {β : Type} (f g : α → Option β) (l : List α) (h : ∀ x ∈ l, f x = g x) :
    l.filterMap f = l.filterMap g := by
  induction l with
  | nil => rfl
  | cons a as ih =>
    simp only [List.filterMap_cons, h a (by simp), ih (fun x hx => h x (by simp [hx]))]

theorem filterMap_getElem?_length (i : Nat) (m : List (List α)) (h : ∀ c ∈ m, i < c.length) :
    (m.filterMap (·[i]?)).length = m.length := by
  induction m with
  | nil => simp
  | cons a as ih =>
    have ha : i < a.length := h a (by simp)
    simp [List.getElem?_eq_getElem ha, ih (fun c hc => h c (by simp [hc]))]

theorem filterMap_getElem?_get (i k : Nat) (m : List (List α)) (h : ∀ c ∈ m, i < c.length) :
    (m.filterMap (·[i]?))[k]? = (m[k]?).bind (·[i]?) := by
  induction m generalizing k with
  | nil => simp
  | cons a as ih =>
    have ha : i < a.length := h a (by simp)
    simp only [List.filterMap_cons, List.getElem?_eq_getElem ha]
    cases k with
    | zero => simp [List.getElem?_eq_getElem ha]
    | succ k => simpa using ih k (fun c hc => h c (by simp [hc]))

/-- the transpose of a rectangular `n × m` matrix (`m > 0` rows of the transpose) is rectangular `m × n` -/
theorem zipStar_shape {m : Nat} {rows : List (List α)} (hne : rows ≠ []) (hr : Rect m rows) :
    (zipStar rows).length = m ∧ Rect rows.length (zipStar rows) := by
  rw [zipStar_closed hne hr]
  refine ⟨by simp, ?_⟩
  intro c hc
  simp only [List.mem_map, List.mem_range] at hc
  obtain ⟨i, hi, rfl⟩ := hc
  exact filterMap_getElem?_length i rows (fun c hc => by rw [hr c hc]; exact hi)

/-- **`zip(*zip(*rows)) = rows`** for a rectangular matrix with at least one row and one column -/
theorem zipStar_involutive {m : Nat} {rows : List (List α)} (hne : rows ≠ []) (hr : Rect m rows) (hm : 0 < m) :
    zipStar (zipStar rows) = rows := by
  obtain ⟨hlen, hrect⟩ := zipStar_shape hne hr
  have hne' : zipStar rows ≠ [] := by
    intro h; rw [h] at hlen; simp at hlen; omega
  rw [zipStar_closed hne' hrect]
  apply List.ext_getElem?
  intro k
  by_cases hk : k < rows.length
  · rw [List.getElem?_map, List.getElem?_range hk, Option.map_some, List.getElem?_eq_getElem hk]
    congr 1
    -- row k read back through the columns
    rw [zipStar_closed hne hr, List.filterMap_map]
    have hrow : rows[k].length = m := hr _ (List.getElem_mem _)
    have : (List.range m).filterMap ((fun c : List α => c[k]?) ∘ fun i => rows.filterMap (·[i]?))
        = (List.range m).filterMap (rows[k][·]?) := by
      apply filterMap_congr_mem
      intro i hi
      have hi' := List.mem_range.1 hi
      simp only [Function.comp]
      rw [filterMap_getElem?_get i k rows (fun c hc => by rw [hr c hc]; exact hi'), List.getElem?_eq_getElem hk]
      rfl
    rw [this, ← hrow]
    exact filterMap_range_getElem? _
  · have h1 : rows.length ≤ k := by omega
    rw [List.getElem?_eq_none (by simpa using h1), List.getElem?_eq_none h1]

/-! ## the rows `prune_shell` keeps -/

theorem foldl_insertGroup_pred (val : ν → Rat) (S : ν → Prop) (qs : List (ν × List ν)) :
    ∀ (gs : List (ν × List (List ν))), (∀ g ∈ gs, S g.1) → (∀ p ∈ qs, S p.1) →
      ∀ g ∈ qs.foldl (fun gs p => insertGroup val p.1 p.2 gs) gs, S g.1 := by
  induction qs with
  | nil => intro gs h _; simpa using h
  | cons p qs ih =>
    intro gs h hp
    simp only [List.foldl_cons]
    apply ih _ _ (fun q hq => hp q (by simp [hq]))
    intro g hg
    rcases insertGroup_reps val p.1 p.2 gs g hg with ⟨g0, hg0, he⟩ | ⟨he, _⟩
    · rw [he]; exact h g0 hg0
    · rw [he]; exact hp p (by simp)

theorem groupRows_reps_mem (val : ν → Rat) (ps : List (ν × List ν)) :
    ∀ g ∈ groupRows val ps, g.1 ∈ ps.map (·.1) := by
  intro g hg
  exact foldl_insertGroup_pred val (fun e => e ∈ ps.map (·.1)) ps [] (by simp)
    (fun p hp => List.mem_map.2 ⟨p, hp, rfl⟩) g hg

/-- everything about the result of `prune_shell` in terms of the rows it kept -/
theorem pruneShell_shape (val : ν → Rat) (sh sh' : Shell ν) (n : Nat)
    (hn : sh.exps.length = n) (hr : Rect n sh.coefs) (hne : sh.coefs ≠ [])
    (h : pruneShell val sh = .ok sh') :
    sh'.am = sh.am ∧ sh'.ftype = sh.ftype ∧
    ∃ kept : List (ν × List ν), sh'.exps = kept.map (·.1) ∧ sh'.coefs = zipStar (kept.map (·.2))
      ∧ (∀ p ∈ kept, notAllZero val p = true)
      ∧ (∀ p ∈ kept, p.2.length = sh.coefs.length)
      ∧ (∀ p ∈ kept, p.1 ∈ sh.exps)
      ∧ (kept.map (·.1)).Pairwise (fun a b => val a ≠ val b) := by
  unfold pruneShell at h
  simp only at h
  split at h
  · cases h
  · cases hm : mapE (collapseG val) (groupRows val (sh.exps.zip (zipStar sh.coefs))) with
    | error e => simp [hm] at h
    | ok merged =>
      simp only [hm] at h
      cases h
      refine ⟨rfl, rfl, merged.filter (notAllZero val), rfl, rfl, fun p hp => (List.mem_filter.1 hp).2, ?_, ?_, ?_⟩
      · -- widths
        have hrows : ∀ q ∈ sh.exps.zip (zipStar sh.coefs), q.2.length = sh.coefs.length := by
          intro q hq
          have := (List.of_mem_zip hq).2
          exact (zipStar_shape hne hr).2 _ this
        have hg := groupRows_rows val _ (fun r => r.length = sh.coefs.length) hrows
        have hpos : 0 < sh.coefs.length := List.length_pos_iff.2 hne
        obtain ⟨_, _, hm3⟩ := wPrims_merged val 0 0 sh.coefs.length hpos _ merged hg hm
        intro p hp
        exact hm3 p (List.mem_filter.1 hp).1
      · -- representatives are input exponents
        have hpos : 0 < sh.coefs.length := List.length_pos_iff.2 hne
        have hrows : ∀ q ∈ sh.exps.zip (zipStar sh.coefs), q.2.length = sh.coefs.length := by
          intro q hq
          exact (zipStar_shape hne hr).2 _ (List.of_mem_zip hq).2
        have hg := groupRows_rows val _ (fun r => r.length = sh.coefs.length) hrows
        obtain ⟨_, hfst, _⟩ := wPrims_merged val 0 0 sh.coefs.length hpos _ merged hg hm
        intro p hp
        have hp1 : p.1 ∈ merged.map (·.1) := List.mem_map.2 ⟨p, (List.mem_filter.1 hp).1, rfl⟩
        rw [hfst] at hp1
        obtain ⟨g, hg', hge⟩ := List.mem_map.1 hp1
        have := groupRows_reps_mem val _ g hg'
        obtain ⟨q, hq, hqe⟩ := List.mem_map.1 this
        rw [← hge, ← hqe]
        exact (List.of_mem_zip hq).1
      · have hd := groupRows_distinct val (sh.exps.zip (zipStar sh.coefs))
        have hpos : 0 < sh.coefs.length := List.length_pos_iff.2 hne
        have hrows : ∀ q ∈ sh.exps.zip (zipStar sh.coefs), q.2.length = sh.coefs.length := by
          intro q hq
          exact (zipStar_shape hne hr).2 _ (List.of_mem_zip hq).2
        have hg := groupRows_rows val _ (fun r => r.length = sh.coefs.length) hrows
        obtain ⟨_, hfst, _⟩ := wPrims_merged val 0 0 sh.coefs.length hpos _ merged hg hm
        have hall : (merged.map (·.1)).Pairwise (fun a b => val a ≠ val b) := by
          rw [hfst]
          unfold DistinctReps at hd
          exact List.pairwise_map.2 hd
        exact List.Pairwise.sublist (List.Sublist.map _ List.filter_sublist) hall

/-! ## columns and their functions -/

theorem colFn_zero_of_allZero (val : ν → Rat) (exps col : List ν) (h : ∀ c ∈ col, val c = 0) (x : Rat) :
    colFn val exps col x = 0 := by
  unfold colFn
  induction exps generalizing col with
  | nil => simp
  | cons e es ih =>
    cases col with
    | nil => simp
    | cons c cs =>
      simp only [List.zip_cons_cons, List.map_cons, List.sum_cons, h c (by simp), ih cs (fun c' hc' => h c' (by simp [hc']))]
      split <;> grind

/-- with pairwise different exponent values, the function of a column at an exponent is the coefficient there -/
theorem colFn_at_distinct (val : ν → Rat) (exps col : List ν) (hd : exps.Pairwise (fun a b => val a ≠ val b))
    (i : Nat) (hi : i < exps.length) (hc : i < col.length) :
    colFn val exps col (val exps[i]) = val col[i] := by
  unfold colFn
  induction exps generalizing col i with
  | nil => simp at hi
  | cons e es ih =>
    cases col with
    | nil => simp at hc
    | cons c cs =>
      obtain ⟨hhead, htail⟩ := List.pairwise_cons.1 hd
      simp only [List.zip_cons_cons, List.map_cons, List.sum_cons]
      cases i with
      | zero =>
        simp only [List.getElem_cons_zero, if_true]
        -- the rest contributes nothing
        have : ((es.zip cs).map fun p => if val p.1 = val e then val p.2 else 0).sum = 0 := by
          have hz : ∀ p ∈ es.zip cs, (if val p.1 = val e then val p.2 else 0) = 0 := by
            intro p hp
            have := hhead p.1 (List.of_mem_zip hp).1
            rw [if_neg (fun h => this h.symm)]
          generalize es.zip cs = l at hz
          induction l with
          | nil => simp
          | cons a as iha =>
            simp only [List.map_cons, List.sum_cons, hz a (by simp), iha (fun p hp => hz p (by simp [hp]))]
            grind
        rw [this]; grind
      | succ k =>
        simp only [List.getElem_cons_succ]
        have hk : k < es.length := by simpa using hi
        have hne : val e ≠ val es[k] := hhead _ (List.getElem_mem _)
        rw [if_neg hne, ih cs htail k hk (by simpa using hc)]
        grind

/-! ## the pruned shell is valid -/

open BSE.Props.C18 in
/-- **what `prune_shell` returns satisfies the validator's rules**: for a semantically well-formed input with the
right tag and positive exponents, every rule holds for the output; "no duplicate contraction" is the one rule pruning
cannot promise in general (hypothesis `hdup`, vacuous for a single contraction) -/
theorem pruneShell_valid (val : ν → Rat) (sh sh' : Shell ν) (hw : SemWF val sh)
    (htagH : sh.am.foldl max 0 > 1 → (sh.ftype = "gto_spherical" ∨ sh.ftype = "gto_cartesian"))
    (htagL : ¬ sh.am.foldl max 0 > 1 → ¬ (strInfix "spherical" sh.ftype = true ∨ strInfix "cartesian" sh.ftype = true))
    (hpos : ∀ e ∈ sh.exps, val e > 0)
    (hfused : sh.am.length > 1 → sh.coefs.length = sh.am.length)
    (h : pruneShell val sh = .ok sh')
    (hdup : sh'.am.length = 1 → (sh'.coefs.map (·.map val)).Nodup) :
    ValidShell val sh' := by
  have hrect : Rect sh.exps.length sh.coefs := hw.rect
  obtain ⟨ham, hft, kept, hex, hco, hnz, hwid, hmem, hdist⟩ :=
    pruneShell_shape val sh sh' sh.exps.length rfl hrect hw.cols_ne h
  have hsurv : sh'.exps ≠ [] := pruneShell_survives val sh sh' hw h
  have hkept : kept ≠ [] := by
    intro hk; rw [hk] at hex; exact hsurv (by simpa using hex)
  have hrows_ne : kept.map (·.2) ≠ [] := by simpa using hkept
  have hm : 0 < sh.coefs.length := List.length_pos_iff.2 hw.cols_ne
  have hrows_rect : Rect sh.coefs.length (kept.map (·.2)) := by
    intro r hr
    obtain ⟨p, hp, rfl⟩ := List.mem_map.1 hr
    exact hwid p hp
  obtain ⟨hlen, hcolrect⟩ := zipStar_shape hrows_ne hrows_rect
  have hexlen : sh'.exps.length = kept.length := by rw [hex]; simp
  refine ⟨by rw [ham]; exact hw.am_ne, ?_, by rw [ham, hft]; exact htagH, by rw [ham, hft]; exact htagL,
    ?_, ?_, ?_, hdup, ?_, ?_⟩
  · intro h0; exact hsurv (List.eq_nil_of_length_eq_zero h0)
  · -- distinct
    rw [hex]
    exact List.pairwise_map.2 (List.Pairwise.imp (fun h => h) hdist)
  · -- positive
    intro x hx
    obtain ⟨e, he, rfl⟩ := List.mem_map.1 hx
    rw [hex] at he
    obtain ⟨p, hp, rfl⟩ := List.mem_map.1 he
    exact hpos _ (hmem p hp)
  · -- columns
    intro g hg
    refine ⟨?_, ?_⟩
    · rw [hco] at hg
      rw [hcolrect g hg, hexlen]; simp
    · obtain ⟨j, hj, hgj⟩ := List.mem_iff_getElem.1 hg
      have hj' : j < sh.coefs.length := by rw [hco, hlen] at hj; exact hj
      obtain ⟨x, hx⟩ := hw.live sh.coefs[j] (List.getElem_mem _)
      have hfn := pruneShell_colFn val sh sh' sh.exps.length rfl hrect hw.cols_ne h j hj' x
      rw [List.getElem?_eq_getElem hj, List.getElem?_eq_getElem hj', Option.getD_some, Option.getD_some, hgj] at hfn
      apply Classical.byContradiction
      intro hno
      have hall : ∀ c ∈ g, val c = 0 := by
        intro c hc
        apply Classical.byContradiction
        intro hc0
        exact hno ⟨c, hc, hc0⟩
      rw [colFn_zero_of_allZero val sh'.exps g hall x] at hfn
      exact hx hfn.symm
  · -- no unused primitive
    intro r hr
    unfold rowsOf at hr
    rw [hco, zipStar_involutive hrows_ne hrows_rect hm] at hr
    obtain ⟨p, hp, rfl⟩ := List.mem_map.1 hr
    have := hnz p hp
    simp only [notAllZero, Bool.not_eq_true', List.all_eq_false] at this
    obtain ⟨c, hc, hne⟩ := this
    exact ⟨c, hc, by simpa using hne⟩
  · -- fused
    intro hl
    rw [ham] at hl
    rw [hco, hlen, ham]
    exact hfused hl

open BSE.Props.C18 in
/-- a valid shell with at least one contraction is semantically well-formed -/
theorem validShell_semWF (val : ν → Rat) (sh : Shell ν) (v : ValidShell val sh) (hne : sh.coefs ≠ []) : SemWF val sh := by
  have hd : sh.exps.Pairwise (fun a b => val a ≠ val b) := List.pairwise_map.1 v.distinct
  refine ⟨v.am_nonempty, fun c hc => (v.columns c hc).1, hne, ?_⟩
  intro c hc
  obtain ⟨hl, e, he, hne0⟩ := v.columns c hc
  obtain ⟨i, hi, rfl⟩ := List.mem_iff_getElem.1 he
  have hi' : i < sh.exps.length := by omega
  exact ⟨val sh.exps[i], by rw [colFn_at_distinct val sh.exps c hd i hi' hi]; exact hne0⟩

/-- a well-formed shell keeps its number of contractions through `prune_shell` -/
theorem pruneShell_ncols_wf (val : ν → Rat) (sh sh' : Shell ν) (hw : SemWF val sh) (h : pruneShell val sh = .ok sh') :
    sh'.coefs.length = sh.coefs.length := by
  rcases (pruneShell_ncols val sh sh' sh.exps.length rfl hw.rect hw.cols_ne h).2 with h0 | h1
  · exact absurd h0 (pruneShell_survives val sh sh' hw h)
  · exact h1

open BSE.Props.C18 in
/-- every shell that `uncontract_general` builds from a valid shell, once pruned, is valid -/
theorem uncontractGeneral_shell_valid (val : ν → Rat) (shells : List (Shell ν))
    (hv : ∀ sh ∈ shells, ValidShell val sh ∧ sh.coefs ≠ [])
    (s s' : Shell ν) (hs : s ∈ uncontractGeneralCore shells) (h : pruneShell val s = .ok s') : ValidShell val s' := by
  have hsem := semWF_uncontractGeneralCore val shells (fun sh hsh => validShell_semWF val sh (hv sh hsh).1 (hv sh hsh).2) s hs
  have hn := pruneShell_ncols_wf val s s' hsem h
  obtain ⟨ham, _⟩ := pruneShell_shape val s s' s.exps.length rfl hsem.rect hsem.cols_ne h
  unfold uncontractGeneralCore at hs
  obtain ⟨sh, hsh, hin⟩ := List.mem_flatMap.1 hs
  obtain ⟨v, _⟩ := hv sh hsh
  split at hin
  · -- passed through unchanged
    rename_i hcase
    have e : s = sh := by simpa using hin
    subst e
    apply pruneShell_valid val s s' hsem v.tag_high v.tag_low
      (fun e he => v.positive (val e) (List.mem_map.2 ⟨e, he, rfl⟩)) v.fused h
    intro h1
    rw [ham] at h1
    rcases hcase with hc | hc
    · have : s'.coefs.length = 1 := by rw [hn, hc]
      match hcs : s'.coefs, this with
      | [c], _ => simp
    · omega
  · split at hin
    · -- one shell per contraction
      rename_i hnot h1
      obtain ⟨c, hc, rfl⟩ := List.mem_map.1 hin
      apply pruneShell_valid val _ s' hsem v.tag_high v.tag_low
        (fun e he => v.positive (val e) (List.mem_map.2 ⟨e, he, rfl⟩))
        (fun hl => by simp only [List.length_cons, List.length_nil] at hl ⊢; omega) h
      intro _
      have : s'.coefs.length = 1 := by rw [hn]; rfl
      match hcs : s'.coefs, this with
      | [c], _ => simp
    · simp at hin

/-! ## pruning a valid shell changes nothing -/

theorem insertGroup_new (val : ν → Rat) (e : ν) (row : List ν) (gs : List (ν × List (List ν)))
    (h : ∀ g ∈ gs, val e ≠ val g.1) : insertGroup val e row gs = gs ++ [(e, [row])] := by
  induction gs with
  | nil => rfl
  | cons g gs ih =>
    obtain ⟨e0, rows⟩ := g
    have h0 : val e ≠ val e0 := h (e0, rows) (by simp)
    simp only [insertGroup, h0, if_false, List.cons_append, ih (fun g hg => h g (by simp [hg]))]

theorem foldl_insertGroup_distinct (val : ν → Rat) (qs : List (ν × List ν)) :
    ∀ (done : List (ν × List ν)), ((done ++ qs).map (·.1)).Pairwise (fun a b => val a ≠ val b) →
      qs.foldl (fun gs p => insertGroup val p.1 p.2 gs) (done.map fun p => (p.1, [p.2]))
        = (done ++ qs).map fun p => (p.1, [p.2]) := by
  induction qs with
  | nil => intro done _; simp
  | cons q qs ih =>
    intro done hd
    simp only [List.foldl_cons]
    have hnew : ∀ g ∈ done.map (fun p => (p.1, [p.2])), val q.1 ≠ val g.1 := by
      intro g hg
      obtain ⟨p, hp, rfl⟩ := List.mem_map.1 hg
      have hd' := hd
      simp only [List.map_append, List.map_cons, List.pairwise_append] at hd'
      exact fun he => hd'.2.2 p.1 (List.mem_map.2 ⟨p, hp, rfl⟩) q.1 (by simp) he.symm
    rw [insertGroup_new val q.1 q.2 _ hnew]
    have := ih (done ++ [q]) (by simpa using hd)
    simpa using this

theorem groupRows_distinct_singletons (val : ν → Rat) (ps : List (ν × List ν))
    (hd : (ps.map (·.1)).Pairwise (fun a b => val a ≠ val b)) :
    groupRows val ps = ps.map fun p => (p.1, [p.2]) := by
  have := foldl_insertGroup_distinct val ps [] (by simpa using hd)
  simpa [groupRows] using this

theorem mapE_collapseG_singletons (val : ν → Rat) (ps : List (ν × List ν)) :
    mapE (collapseG val) (ps.map fun p => (p.1, [p.2])) = .ok ps := by
  induction ps with
  | nil => rfl
  | cons p ps ih =>
    simp only [List.map_cons, mapE, collapseG, collapse, ih]

open BSE.Props.C18 in
/-- **`prune_shell` is the identity on a valid shell** (distinct exponents: nothing to merge; no unused primitive:
nothing to drop) — so pruning is idempotent on what it hands out and `get_basis` without options returns the stored data -/
theorem pruneShell_id_of_valid (val : ν → Rat) (sh : Shell ν) (v : ValidShell val sh) (hne : sh.coefs ≠ []) :
    pruneShell val sh = .ok sh := by
  have hrect : Rect sh.exps.length sh.coefs := fun c hc => (v.columns c hc).1
  have hpos : 0 < sh.exps.length := Nat.pos_of_ne_zero v.has_primitive
  obtain ⟨hlen, hrowrect⟩ := zipStar_shape hne hrect
  have hd : sh.exps.Pairwise (fun a b => val a ≠ val b) := List.pairwise_map.1 v.distinct
  have hfst : (sh.exps.zip (zipStar sh.coefs)).map (·.1) = sh.exps := by
    rw [List.map_fst_zip]; omega
  have hsnd : (sh.exps.zip (zipStar sh.coefs)).map (·.2) = zipStar sh.coefs := by
    rw [List.map_snd_zip]; omega
  unfold pruneShell
  simp only
  rw [if_neg (by omega), groupRows_distinct_singletons val _ (by rw [hfst]; exact hd), mapE_collapseG_singletons]
  simp only
  have hall : (sh.exps.zip (zipStar sh.coefs)).filter (notAllZero val) = sh.exps.zip (zipStar sh.coefs) := by
    apply List.filter_eq_self.2
    intro p hp
    obtain ⟨c, hc, hc0⟩ := v.no_unused p.2 (List.of_mem_zip hp).2
    simp only [notAllZero, Bool.not_eq_true', List.all_eq_false]
    exact ⟨c, hc, by simpa using hc0⟩
  rw [hall, hfst, hsnd, zipStar_involutive hne hrect hpos]

end BSE
