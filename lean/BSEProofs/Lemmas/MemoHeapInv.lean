import BSEModel.MemoHeap
/-! The invariant of the memoiser with mutable results: with the shape `good` the cache holds serialised copies only, each the
value of the function at an argument with that key. -/
namespace BSE.MemoHeap

variable {A K V : Type} [DecidableEq K]

def Inv (key : A → Option K) (F : A → V) (s : St K V) : Prop :=
  ∀ k st, (k, st) ∈ s.cache → ∃ a, key a = some k ∧ st = Stored.bytes (F a)

theorem lookup_mem (c : List (K × Stored V)) (k : K) (st : Stored V) (h : lookup c k = some st) : (k, st) ∈ c := by
  unfold lookup at h
  cases hf : c.find? (·.1 == k) with
  | none => simp [hf] at h
  | some p =>
    simp only [hf, Option.map_some, Option.some.injEq] at h
    have hm := List.mem_of_find?_eq_some hf
    have hk := List.find?_some hf
    have : p.1 = k := by simpa using hk
    obtain ⟨pk, ps⟩ := p
    simp only at this h
    subst this; subst h
    exact hm

theorem fresh_get (s : St K V) (v : V) : (fresh s v).1.heap[(fresh s v).2]? = some v := by
  simp [fresh]

theorem step_call_disabled (sh : Shape) (key : A → Option K) (F : A → V) (s : St K V) (a : A) (h : s.enabled = false) :
    step sh key F s (.call a) = ((fresh s (F a)).1, some (a, (fresh s (F a)).2)) := by
  simp [step, h]

theorem step_call_nokey (sh : Shape) (key : A → Option K) (F : A → V) (s : St K V) (a : A) (h : s.enabled = true) (hk : key a = none) :
    step sh key F s (.call a) = ((fresh s (F a)).1, some (a, (fresh s (F a)).2)) := by
  simp [step, h, hk]

theorem step_call_hit (sh : Shape) (key : A → Option K) (F : A → V) (s : St K V) (a : A) (k : K) (v : V) (h : s.enabled = true)
    (hk : key a = some k) (hl : lookup s.cache k = some (.bytes v)) :
    step sh key F s (.call a) = ((fresh s v).1, some (a, (fresh s v).2)) := by
  simp [step, h, hk, hl]

theorem step_call_miss_good (key : A → Option K) (F : A → V) (s : St K V) (a : A) (k : K) (h : s.enabled = true)
    (hk : key a = some k) (hl : lookup s.cache k = none) :
    step good key F s (.call a)
      = (⟨(fresh s (F a)).1.heap, (k, .bytes (F a)) :: s.cache, s.enabled⟩, some (a, (fresh s (F a)).2)) := by
  simp [step, h, hk, hl, good]

theorem step_good (key : A → Option K) (F : A → V) (hinj : ∀ a a', key a = key a' → key a ≠ none → F a = F a')
    (s : St K V) (hI : Inv key F s) (op : Op A V) :
    Inv key F (step good key F s op).1 ∧
      ∀ a o, (step good key F s op).2 = some (a, o) → (step good key F s op).1.heap[o]? = some (F a) := by
  have hfresh : ∀ (a : A) (v : V), v = F a →
      Inv key F (fresh s v).1 ∧ ∀ a' o, (some (a, (fresh s v).2) : Option (A × Nat)) = some (a', o) → (fresh s v).1.heap[o]? = some (F a') := by
    intro a v hv
    refine ⟨fun k st h => hI k st h, fun a' o h => ?_⟩
    simp only [Option.some.injEq, Prod.mk.injEq] at h
    obtain ⟨rfl, rfl⟩ := h
    rw [fresh_get, hv]
  cases op with
  | toggle => exact ⟨fun k st h => hI k st h, fun a o h => by simp [step] at h⟩
  | scribble o v => exact ⟨fun k st h => hI k st h, fun a o h => by simp [step] at h⟩
  | call a =>
    by_cases hen : s.enabled = true
    · cases hk : key a with
      | none => rw [step_call_nokey good key F s a hen hk]; exact hfresh a (F a) rfl
      | some k =>
        cases hl : lookup s.cache k with
        | none =>
          rw [step_call_miss_good key F s a k hen hk hl]
          refine ⟨?_, fun a' o h => ?_⟩
          · intro k' st h
            simp only [List.mem_cons, Prod.mk.injEq] at h
            rcases h with ⟨rfl, rfl⟩ | h
            · exact ⟨a, hk, rfl⟩
            · exact hI k' st h
          · simp only [Option.some.injEq, Prod.mk.injEq] at h
            obtain ⟨rfl, rfl⟩ := h
            exact fresh_get s (F a)
        | some st =>
          obtain ⟨a', hk', hst⟩ := hI k st (lookup_mem _ _ _ hl)
          subst hst
          rw [step_call_hit good key F s a k (F a') hen hk hl]
          exact hfresh a (F a') (hinj a' a (by rw [hk, hk']) (by rw [hk']; simp))
    · have hen' : s.enabled = false := by simpa using hen
      rw [step_call_disabled good key F s a hen']
      exact hfresh a (F a) rfl

theorem run_good (key : A → Option K) (F : A → V) (hinj : ∀ a a', key a = key a' → key a ≠ none → F a = F a')
    (ops : List (Op A V)) : ∀ (s : St K V), Inv key F s → ∀ p ∈ run good key F s ops, p.2 = some (F p.1) := by
  induction ops with
  | nil => intro s _ p hp; simp [run] at hp
  | cons op ops ih =>
    intro s hI p hp
    obtain ⟨hI', hout⟩ := step_good key F hinj s hI op
    unfold run at hp
    cases hr : (step good key F s op).2 with
    | none =>
      simp only [hr] at hp
      exact ih _ hI' p hp
    | some ao =>
      obtain ⟨a, o⟩ := ao
      simp only [hr, List.mem_cons] at hp
      rcases hp with rfl | hp
      · exact hout a o hr
      · exact ih _ hI' p hp

theorem init_inv (key : A → Option K) (F : A → V) : Inv key F (init : St K V) := by
  intro k st h; simp [init] at h

end BSE.MemoHeap
