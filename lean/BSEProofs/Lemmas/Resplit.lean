import BSEModel.Header

/-! # Re-reading the comment block line by line

`commentBlock c h` prefixes every line of the header `h` with the comment marker `c`.  A reader that splits the text into
lines (`str.splitlines`) sees exactly the header's own lines, each behind the marker — no line of the header can escape
the marker, whatever line-boundary characters the header contains. -/

namespace BSE.Header

def NoBreak (s : Str) : Prop := ∀ c ∈ s, isBreak c = false

/-- consuming a run of non-break characters only grows the current line -/
theorem splitAux_nobreak (w s cur : Str) (hw : NoBreak w) : splitAux (w ++ s) cur = splitAux s (w.reverse ++ cur) := by
  induction w generalizing cur with
  | nil => simp
  | cons c cs ih =>
    have hc : isBreak c = false := hw c (by simp)
    have hcr : c ≠ '\r' := by intro h; rw [h] at hc; simp [isBreak] at hc
    have : splitAux (c :: (cs ++ s)) cur = splitAux (cs ++ s) (c :: cur) := by
      rw [splitAux]
      · simp [hc]
      · intro rest h1; exact absurd h1 hcr
    simp only [List.cons_append, this, ih (c :: cur) (fun x hx => hw x (by simp [hx]))]
    simp

theorem splitAux_ne_nil (h cur : Str) (hne : h ≠ [] ∨ cur ≠ []) : splitAux h cur ≠ [] := by
  fun_induction splitAux h cur with
  | case1 cur hc => rcases hne with h | h <;> simp_all
  | case2 cur hc => simp
  | case3 rest cur ih => simp
  | case4 c rest cur hnot hb ih => simp
  | case5 c rest cur hnot hb ih => exact ih (Or.inr (by simp))

theorem joinWith_cons (c x : Str) (L : List Str) :
    joinWith c (x :: L) = x ++ (if L.isEmpty then [] else c ++ joinWith c L) := by
  cases L with
  | nil => simp [joinWith]
  | cons y ys => simp [joinWith]

/-- a break character followed by the marker (or by nothing) ends the line there -/
theorem splitAux_break (ch : Char) (X acc : Str) (hb : isBreak ch = true) (hX : ∀ r, ch = '\r' → X ≠ '\n' :: r) :
    splitAux (ch :: X) acc = (acc.reverse ++ [ch]) :: splitAux X [] := by
  rw [splitAux]
  · simp [hb]
  · intro rest h1 h2; exact hX rest h1 h2

variable (c : Str)

/-- the generalised statement: having read the marker and `cur`, the rest of the prefixed text splits into the
prefixed lines -/
theorem resplit_aux (hc : NoBreak c) (hcne : c ≠ []) (h cur : Str) :
    NoBreak cur → (h ≠ [] ∨ cur ≠ []) →
      ∃ tail, joinWith c (splitAux h cur) = cur.reverse ++ tail
        ∧ splitAux tail (cur ++ c.reverse) = (splitAux h cur).map (c ++ ·) := by
  have hhead : ∀ r, c ≠ '\n' :: r := by
    intro r hcr
    have := hc '\n' (by rw [hcr]; simp)
    simp [isBreak] at this
  fun_induction splitAux h cur with
  | case1 cur hce =>
    intro _ hne
    rcases hne with h | h
    · exact absurd rfl h
    · have : cur = [] := by simpa using hce
      exact absurd this h
  | case2 cur hce =>
    intro _ _
    refine ⟨[], by simp [joinWith], ?_⟩
    have hacc : (cur ++ c.reverse).isEmpty = false := by
      cases cur with
      | nil => simp at hce
      | cons _ _ => rfl
    simp [splitAux, hacc]
  | case3 rest cur ih =>
    intro hcur _
    by_cases hr : rest = []
    · subst hr
      refine ⟨['\r', '\n'], by simp [splitAux, joinWith], ?_⟩
      simp [splitAux]
    · obtain ⟨tail', hj, hs⟩ := ih (by intro x hx; cases hx) (Or.inl hr)
      have hL : (splitAux rest []).isEmpty = false := by
        have := splitAux_ne_nil rest [] (Or.inl hr)
        cases hq : splitAux rest [] with
        | nil => exact absurd hq this
        | cons _ _ => rfl
      refine ⟨'\r' :: '\n' :: (c ++ tail'), ?_, ?_⟩
      · rw [joinWith_cons, hL]
        simp at hj
        simp [hj]
      · have h1 : splitAux ('\r' :: '\n' :: (c ++ tail')) (cur ++ c.reverse)
            = ((cur ++ c.reverse).reverse ++ ['\r', '\n']) :: splitAux (c ++ tail') [] := by
          rw [splitAux]
        rw [h1, splitAux_nobreak c tail' [] hc]
        simp at hs
        simp [hs]
  | case4 ch rest cur hnot hb ih =>
    intro hcur _
    by_cases hr : rest = []
    · subst hr
      refine ⟨[ch], by simp [splitAux, joinWith], ?_⟩
      rw [splitAux_break ch [] _ hb (by intro r _ h; cases h)]
      simp [splitAux]
    · obtain ⟨tail', hj, hs⟩ := ih (by intro x hx; cases hx) (Or.inl hr)
      have hL : (splitAux rest []).isEmpty = false := by
        have := splitAux_ne_nil rest [] (Or.inl hr)
        cases hq : splitAux rest [] with
        | nil => exact absurd hq this
        | cons _ _ => rfl
      refine ⟨ch :: (c ++ tail'), ?_, ?_⟩
      · rw [joinWith_cons, hL]
        simp at hj
        simp [hj]
      · have hX : ∀ r, ch = '\r' → c ++ tail' ≠ '\n' :: r := by
          intro r _ heq
          cases hcc : c with
          | nil => exact hcne hcc
          | cons a as =>
            rw [hcc] at heq
            simp only [List.cons_append, List.cons.injEq] at heq
            exact hhead as (by rw [hcc, heq.1])
        rw [splitAux_break ch (c ++ tail') _ hb hX, splitAux_nobreak c tail' [] hc]
        simp at hs
        simp [hs]
  | case5 ch rest cur hnot hb ih =>
    intro hcur _
    have hbf : isBreak ch = false := by simpa using hb
    have hcur' : NoBreak (ch :: cur) := by
      intro x hx
      rcases List.mem_cons.1 hx with rfl | hx'
      · exact hbf
      · exact hcur x hx'
    obtain ⟨tail', hj, hs⟩ := ih hcur' (Or.inr (by simp))
    refine ⟨ch :: tail', ?_, ?_⟩
    · rw [hj]; simp
    · have := splitAux_nobreak [ch] tail' (cur ++ c.reverse) (by intro x hx; simp at hx; rw [hx]; exact hbf)
      simp only [List.singleton_append, List.reverse_singleton] at this
      rw [this]
      simpa using hs

/-- **every line of the comment block, as a line-splitting reader sees it, is a header line behind the marker** -/
theorem splitlines_commentBlock (hc : NoBreak c) (hcne : c ≠ []) (h : Str) (hne : h ≠ []) :
    splitlinesKeep (commentBlock c h) = (splitlinesKeep h).map (c ++ ·) := by
  obtain ⟨tail, hj, hs⟩ := resplit_aux c hc hcne h [] (by intro x hx; cases hx) (Or.inl hne)
  unfold commentBlock splitlinesKeep at *
  simp only [List.reverse_nil, List.nil_append] at hj hs
  rw [hj, splitAux_nobreak c tail [] hc]
  simpa using hs

/-- … so each of them starts with the marker -/
theorem commentBlock_lines_marked (hc : NoBreak c) (hcne : c ≠ []) (h : Str) (hne : h ≠ []) :
    ∀ l ∈ splitlinesKeep (commentBlock c h), c.isPrefixOf l = true := by
  intro l hl
  rw [splitlines_commentBlock c hc hcne h hne] at hl
  obtain ⟨l0, _, rfl⟩ := List.mem_map.1 hl
  exact List.isPrefixOf_iff_prefix.2 ⟨l0, rfl⟩

end BSE.Header
