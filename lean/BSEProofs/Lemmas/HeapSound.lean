import BSEModel.Heap
/-! Soundness of the ownership check of `BSEModel/Heap.lean`: an accepted body never writes to a
container of the caller and never returns a value from which one can be reached. -/
namespace BSE.Heap

/-! ### abstract operations, pointwise -/

theorem testBit_bit (x v : Var) : (bit x).testBit v = decide (x = v) := by
  unfold bit
  rw [Nat.testBit_two_pow]

theorem testBit_clr (m : Nat) (x v : Var) : (clr m x).testBit v = (m.testBit v && !decide (x = v)) := by
  unfold clr
  rw [Nat.testBit_xor, Nat.testBit_and, testBit_bit]
  cases m.testBit v <;> cases decide (x = v) <;> rfl

theorem testBit_setBit (m : Nat) (x v : Var) : (m ||| bit x).testBit v = (m.testBit v || decide (x = v)) := by
  rw [Nat.testBit_or, testBit_bit]

theorem ptB_set (a : Abs) (x : Var) (p r : Bool) (v : Var) :
    (a.set x p r).ptB v = if v = x then p else a.ptB v := by
  unfold Abs.set Abs.ptB
  by_cases hv : v = x
  · subst hv
    cases p <;> simp [testBit_clr, Nat.testBit_or, testBit_bit]
  · have hv' : ¬ x = v := fun h => hv h.symm
    cases p <;> simp [testBit_clr, Nat.testBit_or, testBit_bit, hv, hv']

theorem rcB_set (a : Abs) (x : Var) (p r : Bool) (v : Var) :
    (a.set x p r).rcB v = if v = x then r else a.rcB v := by
  unfold Abs.set Abs.rcB
  by_cases hv : v = x
  · subst hv
    cases r <;> cases hn : a.neg <;> simp [testBit_clr, Nat.testBit_or, testBit_bit]
  · have hv' : ¬ x = v := fun h => hv h.symm
    cases r <;> cases hn : a.neg <;> simp [testBit_clr, Nat.testBit_or, testBit_bit, hv, hv']

theorem ptB_taintAll (a : Abs) (v : Var) : a.taintAll.ptB v = a.ptB v := rfl
theorem rcB_taintAll (a : Abs) (v : Var) : a.taintAll.rcB v = true := by
  simp [Abs.taintAll, Abs.rcB]

theorem ptB_join (a b : Abs) (v : Var) : (a.join b).ptB v = (a.ptB v || b.ptB v) := by
  simp [Abs.join, Abs.ptB, Nat.testBit_or]

theorem rcB_join (a b : Abs) (v : Var) : (a.join b).rcB v = (a.rcB v || b.rcB v) := by
  unfold Abs.join Abs.rcB
  cases ha : a.neg <;> cases hb : b.neg <;> simp [Nat.testBit_or, Nat.testBit_and, Nat.testBit_xor] <;>
    cases a.rc.testBit v <;> cases b.rc.testBit v <;> rfl

theorem testBit_of_and_eq {b a : Nat} (h : b &&& a = b) (v : Var) (hv : b.testBit v = true) : a.testBit v = true := by
  have := congrArg (fun m => m.testBit v) h
  simp only [Nat.testBit_and, hv, Bool.true_and] at this
  exact this

theorem not_testBit_of_and_zero {b a : Nat} (h : b &&& a = 0) (v : Var) (hv : b.testBit v = true) : a.testBit v = false := by
  have := congrArg (fun m => m.testBit v) h
  simp only [Nat.testBit_and, hv, Bool.true_and, Nat.zero_testBit] at this
  exact this

theorem ptB_of_le {b a : Abs} (h : b.le a = true) (v : Var) (hv : b.ptB v = true) : a.ptB v = true := by
  unfold Abs.le at h
  simp only [Bool.and_eq_true, beq_iff_eq] at h
  exact testBit_of_and_eq h.1 v hv

theorem rcB_of_le {b a : Abs} (h : b.le a = true) (v : Var) (hv : b.rcB v = true) : a.rcB v = true := by
  unfold Abs.le at h
  simp only [Bool.and_eq_true] at h
  have h2 := h.2
  unfold Abs.rcB at *
  cases hb : b.neg <;> cases ha : a.neg <;> simp only [hb, ha, beq_iff_eq] at h2 hv ⊢
  · simp only [Bool.false_eq_true, if_false] at hv ⊢
    exact testBit_of_and_eq h2 v hv
  · simp only [Bool.false_eq_true, if_false, if_true] at hv ⊢
    rw [not_testBit_of_and_zero h2 v hv]; rfl
  · exact absurd h2 (by simp)
  · simp only [if_true, Bool.not_eq_true'] at hv ⊢
    cases hav : a.rc.testBit v with
    | false => rfl
    | true =>
      have := testBit_of_and_eq h2 v hav
      rw [hv] at this
      exact absurd this (by simp)

theorem testBit_maskOf (vs : List Var) (v : Var) : (maskOf vs).testBit v = decide (v ∈ vs) := by
  induction vs with
  | nil => simp [maskOf]
  | cons x xs ih =>
    have : maskOf (x :: xs) = maskOf xs ||| bit x := rfl
    rw [this, testBit_setBit, ih]
    by_cases h1 : v ∈ xs <;> by_cases h2 : v = x <;> simp [h1, h2, eq_comm]

theorem le_join_left (a b : Abs) (v : Var) : (a.ptB v = true → (a.join b).ptB v = true) ∧ (a.rcB v = true → (a.join b).rcB v = true) := by
  rw [ptB_join, rcB_join]
  constructor <;> intro h <;> simp [h]

/-! ### reachability -/

theorem upd_same {α : Type} (f : Nat → α) (i : Nat) (v : α) : upd f i v i = v := by simp [upd]
theorem upd_other {α : Type} (f : Nat → α) (i j : Nat) (v : α) (h : j ≠ i) : upd f i v j = f j := by simp [upd, h]

theorem Reach.trans {h : Node → List Node} {a b c : Node} (h1 : Reach h a b) (h2 : Reach h b c) : Reach h a c := by
  induction h1 with
  | refl _ => exact h2
  | step hk _ ih => exact Reach.step hk (ih h2)

/-- in a heap closed below `m`, nothing at or above `m` is reachable from below -/
theorem Reach.lt_of_closed {h : Node → List Node} {m : Nat} (hc : ∀ n, n < m → ∀ k ∈ h n, k < m)
    {a b : Node} (hr : Reach h a b) (ha : a < m) : b < m := by
  induction hr with
  | refl _ => exact ha
  | step hk _ ih => exact ih (hc _ ha _ hk)

/-- two heaps that agree below `m`, the first closed below `m`: same reachability from below `m` -/
theorem Reach.of_agree {h h' : Node → List Node} {m : Nat} (hc : ∀ n, n < m → ∀ k ∈ h n, k < m)
    (hag : ∀ n, n < m → h' n = h n) {a b : Node} (hr : Reach h' a b) (ha : a < m) : Reach h a b := by
  induction hr with
  | refl _ => exact Reach.refl _
  | step hk _ ih =>
    rw [hag _ ha] at hk
    exact Reach.step hk (ih (hc _ ha _ hk))

/-- a region `≥ m` that only points into itself: nothing below `m` is reachable from it -/
theorem Reach.ge_of_region {h : Node → List Node} {m : Nat} (hreg : ∀ n, m ≤ n → ∀ k ∈ h n, m ≤ k)
    {a b : Node} (hr : Reach h a b) (ha : m ≤ a) : m ≤ b := by
  induction hr with
  | refl _ => exact ha
  | step hk _ ih => exact ih (hreg _ ha _ hk)

/-- after a write to container `c` whose new members are old members or the nodes `ys`: whatever is
reachable now was reachable before, from the same start or from one of the `ys` -/
theorem Reach.of_store {h : Node → List Node} {c : Node} {L : List Node} {ys : List Node}
    (hL : ∀ k ∈ L, k ∈ h c ∨ k ∈ ys) {a b : Node} (hr : Reach (upd h c L) a b) :
    Reach h a b ∨ ∃ y ∈ ys, Reach h y b := by
  induction hr with
  | refl _ => exact Or.inl (Reach.refl _)
  | @step a0 k0 b0 hk _ ih =>
    rcases ih with ih | ih
    · by_cases hc : a0 = c
      · subst hc
        rw [upd_same] at hk
        rcases hL _ hk with h1 | h1
        · exact Or.inl (Reach.step h1 ih)
        · exact Or.inr ⟨_, h1, ih⟩
      · rw [upd_other _ _ _ _ hc] at hk
        exact Or.inl (Reach.step hk ih)
    · exact Or.inr ih

/-! ### the invariant -/

structure Inv (n0 : Node) (h0 : Node → List Node) (st : St) (a : Abs) : Prop where
  le_next : n0 ≤ st.next
  owned_same : ∀ n, n < n0 → st.heap n = h0 n
  closed : ∀ n, n < st.next → ∀ k ∈ st.heap n, k < st.next
  env_lt : ∀ v, st.env v < st.next
  pt_ok : ∀ v, st.env v < n0 → a.ptB v = true
  rc_ok : ∀ v o, o < n0 → Reach st.heap (st.env v) o → a.rcB v = true
  muts_ok : ∀ n ∈ st.muts, n0 ≤ n
  rets_ok : ∀ p ∈ st.rets, ∀ o, o < n0 → ¬ Reach p.2 p.1 o

theorem Inv.mono {n0 h0 st a a'} (h : Inv n0 h0 st a) (hle : a.le a' = true) : Inv n0 h0 st a' :=
  { h with
    pt_ok := fun v hv => ptB_of_le hle v (h.pt_ok v hv)
    rc_ok := fun v o ho hr => rcB_of_le hle v (h.rc_ok v o ho hr) }

theorem Inv.join_left {n0 h0 st a} (h : Inv n0 h0 st a) (b : Abs) : Inv n0 h0 st (a.join b) :=
  { h with
    pt_ok := fun v hv => (le_join_left a b v).1 (h.pt_ok v hv)
    rc_ok := fun v o ho hr => (le_join_left a b v).2 (h.rc_ok v o ho hr) }

theorem Inv.join_right {n0 h0 st b} (h : Inv n0 h0 st b) (a : Abs) : Inv n0 h0 st (a.join b) :=
  { h with
    pt_ok := fun v hv => by rw [ptB_join]; simp [h.pt_ok v hv]
    rc_ok := fun v o ho hr => by rw [rcB_join]; simp [h.rc_ok v o ho hr] }

/-! ### `iter` returns a checked post-fixpoint above its start -/

theorem iter_spec (f : Abs → Option Abs) : ∀ (n : Nat) (a a' : Abs), iter f n a = some a' →
    (∀ v, (a.ptB v = true → a'.ptB v = true) ∧ (a.rcB v = true → a'.rcB v = true)) ∧
    ∃ b, f a' = some b ∧ b.le a' = true := by
  intro n
  induction n with
  | zero => intro a a' h; simp [iter] at h
  | succ n ih =>
    intro a a' h
    unfold iter at h
    cases hf : f a with
    | none => simp [hf] at h
    | some b =>
      simp only [hf] at h
      by_cases hle : b.le a = true
      · simp only [hle, if_true, Option.some.injEq] at h
        subst h
        exact ⟨fun v => ⟨id, id⟩, b, hf, hle⟩
      · simp only [hle] at h
        obtain ⟨h1, h2⟩ := ih _ _ h
        refine ⟨fun v => ⟨fun hv => (h1 v).1 ((le_join_left a b v).1 hv), fun hv => (h1 v).2 ((le_join_left a b v).2 hv)⟩, h2⟩

theorem iter_fix (f : Abs → Option Abs) (n : Nat) (a b : Abs) (hf : f a = some b) (hle : b.le a = true) :
    iter f (n + 1) a = some a := by
  simp [iter, hf, hle]

/-! ### soundness of one execution -/


theorem exec_sound {n0 : Node} {h0 : Node → List Node} :
    ∀ {st : St} {s : Stmt} {st' : St}, Exec st s st' → ∀ (a a' : Abs), check s a = some a' →
      Inv n0 h0 st a → Inv n0 h0 st' a' := by
  intro st s st' hex
  induction hex with
  | skip st =>
    intro a a' hc hinv
    simp only [check, Option.some.injEq] at hc
    exact hc ▸ hinv
  | deepcopy st st' x y r h1 h2 h3 h4 h5 h6 h7 =>
    intro a a' hc hinv
    simp only [check, Option.some.injEq] at hc
    subst hc
    have hnext : st.next ≤ st'.next := Nat.le_of_lt (Nat.lt_of_le_of_lt h1 h2)
    have hreg : ∀ n, st.next ≤ n → ∀ k ∈ st'.heap n, st.next ≤ k := fun n hn k hk => (h4 n hn k hk).1
    refine ⟨Nat.le_trans hinv.le_next hnext, ?_, ?_, ?_, ?_, ?_, ?_, ?_⟩
    · intro n hn
      rw [h3 n (Nat.lt_of_lt_of_le hn hinv.le_next)]
      exact hinv.owned_same n hn
    · intro n hn k hk
      by_cases hlt : n < st.next
      · rw [h3 n hlt] at hk
        exact Nat.lt_of_lt_of_le (hinv.closed n hlt k hk) hnext
      · exact (h4 n (Nat.le_of_not_lt hlt) k hk).2
    · intro v
      rw [h5]
      by_cases hv : v = x
      · subst hv; rw [upd_same]; exact h2
      · rw [upd_other _ _ _ _ hv]; exact Nat.lt_of_lt_of_le (hinv.env_lt v) hnext
    · intro v hv
      rw [h5] at hv
      rw [ptB_set]
      by_cases hvx : v = x
      · subst hvx
        rw [upd_same] at hv
        exact absurd (Nat.lt_of_le_of_lt h1 hv) (Nat.not_lt.2 hinv.le_next)
      · rw [upd_other _ _ _ _ hvx] at hv
        simp only [hvx, if_false]
        exact hinv.pt_ok v hv
    · intro v o ho hr
      rw [h5] at hr
      rw [rcB_set]
      by_cases hvx : v = x
      · subst hvx
        rw [upd_same] at hr
        have := Reach.ge_of_region hreg hr h1
        exact absurd (Nat.lt_of_lt_of_le ho hinv.le_next) (Nat.not_lt.2 this)
      · rw [upd_other _ _ _ _ hvx] at hr
        simp only [hvx, if_false]
        exact hinv.rc_ok v o ho (Reach.of_agree hinv.closed h3 hr (hinv.env_lt v))
    · rw [h6]; exact hinv.muts_ok
    · rw [h7]; exact hinv.rets_ok
  | derive st x ys L hL =>
    intro a a' hc hinv
    simp only [check, Option.some.injEq] at hc
    subst hc
    have hag : ∀ n, n < st.next → upd st.heap st.next L n = st.heap n :=
      fun n hn => upd_other _ _ _ _ (Nat.ne_of_lt hn)
    have hLlt : ∀ k ∈ L, k < st.next := by
      intro k hk
      obtain ⟨y, _, hr⟩ := hL k hk
      exact Reach.lt_of_closed hinv.closed hr (hinv.env_lt y)
    refine ⟨Nat.le_trans hinv.le_next (Nat.le_succ _), ?_, ?_, ?_, ?_, ?_, hinv.muts_ok, hinv.rets_ok⟩
    · intro n hn
      show upd st.heap st.next L n = h0 n
      rw [hag n (Nat.lt_of_lt_of_le hn hinv.le_next)]
      exact hinv.owned_same n hn
    · intro n hn k hk
      show k < st.next + 1
      by_cases hlt : n < st.next
      · have hk' : k ∈ st.heap n := by rw [← hag n hlt]; exact hk
        exact Nat.lt_succ_of_lt (hinv.closed n hlt k hk')
      · have hn' : n = st.next := Nat.le_antisymm (Nat.le_of_lt_succ hn) (Nat.le_of_not_lt hlt)
        subst hn'
        have hk' : k ∈ L := by
          have : upd st.heap st.next L st.next = L := upd_same _ _ _
          rw [← this]; exact hk
        exact Nat.lt_succ_of_lt (hLlt k hk')
    · intro v
      show upd st.env x st.next v < st.next + 1
      by_cases hv : v = x
      · subst hv; rw [upd_same]; exact Nat.lt_succ_self _
      · rw [upd_other _ _ _ _ hv]; exact Nat.lt_succ_of_lt (hinv.env_lt v)
    · intro v hv
      have hv' : upd st.env x st.next v < n0 := hv
      rw [ptB_set]
      by_cases hvx : v = x
      · subst hvx
        rw [upd_same] at hv'
        exact absurd hv' (Nat.not_lt.2 hinv.le_next)
      · rw [upd_other _ _ _ _ hvx] at hv'
        simp only [hvx, if_false]
        exact hinv.pt_ok v hv'
    · intro v o ho hr
      have hr' : Reach (upd st.heap st.next L) (upd st.env x st.next v) o := hr
      rw [rcB_set]
      by_cases hvx : v = x
      · subst hvx
        rw [upd_same] at hr'
        simp only [if_true]
        cases hr' with
        | refl _ => exact absurd ho (Nat.not_lt.2 hinv.le_next)
        | step hk hrest =>
          rw [upd_same] at hk
          obtain ⟨y, hy, hry⟩ := hL _ hk
          have hr2 := Reach.of_agree hinv.closed hag hrest (hLlt _ hk)
          have := hinv.rc_ok y o ho (Reach.trans hry hr2)
          exact List.any_eq_true.2 ⟨y, hy, this⟩
      · rw [upd_other _ _ _ _ hvx] at hr'
        simp only [hvx, if_false]
        exact hinv.rc_ok v o ho (Reach.of_agree hinv.closed hag hr' (hinv.env_lt v))
  | alias st x y =>
    intro a a' hc hinv
    simp only [check, Option.some.injEq] at hc
    subst hc
    refine ⟨hinv.le_next, hinv.owned_same, hinv.closed, ?_, ?_, ?_, hinv.muts_ok, hinv.rets_ok⟩
    · intro v
      show upd st.env x (st.env y) v < st.next
      by_cases hv : v = x
      · subst hv; rw [upd_same]; exact hinv.env_lt y
      · rw [upd_other _ _ _ _ hv]; exact hinv.env_lt v
    · intro v hv
      have hv' : upd st.env x (st.env y) v < n0 := hv
      rw [ptB_set]
      by_cases hvx : v = x
      · subst hvx
        rw [upd_same] at hv'
        simp only [if_true]
        exact hinv.pt_ok y hv'
      · rw [upd_other _ _ _ _ hvx] at hv'
        simp only [hvx, if_false]
        exact hinv.pt_ok v hv'
    · intro v o ho hr
      have hr' : Reach st.heap (upd st.env x (st.env y) v) o := hr
      rw [rcB_set]
      by_cases hvx : v = x
      · subst hvx
        rw [upd_same] at hr'
        simp only [if_true]
        exact hinv.rc_ok y o ho hr'
      · rw [upd_other _ _ _ _ hvx] at hr'
        simp only [hvx, if_false]
        exact hinv.rc_ok v o ho hr'
  | sub st x y k hk =>
    intro a a' hc hinv
    simp only [check, Option.some.injEq] at hc
    subst hc
    refine ⟨hinv.le_next, hinv.owned_same, hinv.closed, ?_, ?_, ?_, hinv.muts_ok, hinv.rets_ok⟩
    · intro v
      show upd st.env x k v < st.next
      by_cases hv : v = x
      · subst hv; rw [upd_same]; exact Reach.lt_of_closed hinv.closed hk (hinv.env_lt y)
      · rw [upd_other _ _ _ _ hv]; exact hinv.env_lt v
    · intro v hv
      have hv' : upd st.env x k v < n0 := hv
      rw [ptB_set]
      by_cases hvx : v = x
      · subst hvx
        rw [upd_same] at hv'
        simp only [if_true]
        exact hinv.rc_ok y k hv' hk
      · rw [upd_other _ _ _ _ hvx] at hv'
        simp only [hvx, if_false]
        exact hinv.pt_ok v hv'
    · intro v o ho hr
      have hr' : Reach st.heap (upd st.env x k v) o := hr
      rw [rcB_set]
      by_cases hvx : v = x
      · subst hvx
        rw [upd_same] at hr'
        simp only [if_true]
        exact hinv.rc_ok y o ho (Reach.trans hk hr')
      · rw [upd_other _ _ _ _ hvx] at hr'
        simp only [hvx, if_false]
        exact hinv.rc_ok v o ho hr'
  | store st x ys L hL =>
    intro a a' hc hinv
    simp only [check] at hc
    by_cases hpt : a.ptB x = true
    · simp [hpt] at hc
    · simp only [hpt, Bool.false_eq_true, if_false] at hc
      have hxge : n0 ≤ st.env x := by
        apply Nat.le_of_not_lt
        intro hlt
        exact hpt (hinv.pt_ok x hlt)
      have hL' : ∀ k ∈ L, k ∈ st.heap (st.env x) ∨ k ∈ ys.map st.env := by
        intro k hk
        rcases hL k hk with h | ⟨y, hy, rfl⟩
        · exact Or.inl h
        · exact Or.inr (List.mem_map.2 ⟨y, hy, rfl⟩)
      have hbase : n0 ≤ st.next ∧ (∀ n, n < n0 → upd st.heap (st.env x) L n = h0 n) ∧
          (∀ n, n < st.next → ∀ k ∈ upd st.heap (st.env x) L n, k < st.next) ∧
          (∀ n ∈ st.env x :: st.muts, n0 ≤ n) := by
        refine ⟨hinv.le_next, ?_, ?_, ?_⟩
        · intro n hn
          rw [upd_other _ _ _ _ (Nat.ne_of_lt (Nat.lt_of_lt_of_le hn hxge))]
          exact hinv.owned_same n hn
        · intro n hn k hk
          by_cases hnx : n = st.env x
          · subst hnx
            rw [upd_same] at hk
            rcases hL k hk with h | ⟨y, _, rfl⟩
            · exact hinv.closed _ hn k h
            · exact hinv.env_lt y
          · rw [upd_other _ _ _ _ hnx] at hk
            exact hinv.closed n hn k hk
        · intro n hn
          rcases List.mem_cons.1 hn with h | h
          · exact h ▸ hxge
          · exact hinv.muts_ok n h
      obtain ⟨b1, b2, b3, b4⟩ := hbase
      by_cases hany : ys.any a.rcB = true
      · simp only [hany, if_true, Option.some.injEq] at hc
        subst hc
        exact ⟨b1, b2, b3, hinv.env_lt, fun v hv => by rw [ptB_taintAll]; exact hinv.pt_ok v hv,
          fun v o _ _ => rcB_taintAll a v, b4, hinv.rets_ok⟩
      · simp only [hany, Bool.false_eq_true, if_false, Option.some.injEq] at hc
        subst hc
        refine ⟨b1, b2, b3, hinv.env_lt, hinv.pt_ok, ?_, b4, hinv.rets_ok⟩
        intro v o ho hr
        have hr' : Reach (upd st.heap (st.env x) L) (st.env v) o := hr
        rcases Reach.of_store hL' hr' with h | ⟨n, hn, h⟩
        · exact hinv.rc_ok v o ho h
        · obtain ⟨y, hy, rfl⟩ := List.mem_map.1 hn
          have := hinv.rc_ok y o ho h
          exact absurd (List.any_eq_true.2 ⟨y, hy, this⟩) hany
  | ret st x =>
    intro a a' hc hinv
    simp only [check] at hc
    by_cases hrc : a.rcB x = true
    · simp [hrc] at hc
    · simp only [hrc, Bool.false_eq_true, if_false, Option.some.injEq] at hc
      subst hc
      refine ⟨hinv.le_next, hinv.owned_same, hinv.closed, hinv.env_lt, hinv.pt_ok, hinv.rc_ok, hinv.muts_ok, ?_⟩
      intro p hp o ho
      rcases List.mem_cons.1 hp with h | h
      · subst h
        intro hr
        exact hrc (hinv.rc_ok x o ho hr)
      · exact hinv.rets_ok p h o ho
  | @seq st0 st1 st2 s0 t0 _ _ ih1 ih2 =>
    intro a a' hc hinv
    simp only [check] at hc
    cases h1 : check s0 a with
    | none => simp [h1] at hc
    | some b =>
      simp only [h1] at hc
      exact ih2 b a' hc (ih1 a b h1 hinv)
  | @choiceL st0 st1 s0 t0 _ ih =>
    intro a a' hc hinv
    simp only [check] at hc
    cases h1 : check s0 a with
    | none => simp [h1] at hc
    | some b =>
      cases h2 : check t0 a with
      | none => simp [h1, h2] at hc
      | some c =>
        simp only [h1, h2, Option.some.injEq] at hc
        subst hc
        exact (ih a b h1 hinv).join_left c
  | @choiceR st0 st1 s0 t0 _ ih =>
    intro a a' hc hinv
    simp only [check] at hc
    cases h1 : check s0 a with
    | none => simp [h1] at hc
    | some b =>
      cases h2 : check t0 a with
      | none => simp [h1, h2] at hc
      | some c =>
        simp only [h1, h2, Option.some.injEq] at hc
        subst hc
        exact (ih a c h2 hinv).join_right b
  | loopDone st s =>
    intro a a' hc hinv
    simp only [check] at hc
    obtain ⟨h1, _⟩ := iter_spec _ _ _ _ hc
    exact { hinv with
      pt_ok := fun v hv => (h1 v).1 (hinv.pt_ok v hv)
      rc_ok := fun v o ho hr => (h1 v).2 (hinv.rc_ok v o ho hr) }
  | @loopStep st0 st1 st2 s0 _ _ ih1 ih2 =>
    intro a a' hc hinv
    simp only [check] at hc
    obtain ⟨h1, b, hb, hle⟩ := iter_spec _ _ _ _ hc
    have hinv' : Inv n0 h0 st0 a' := { hinv with
      pt_ok := fun v hv => (h1 v).1 (hinv.pt_ok v hv)
      rc_ok := fun v o ho hr => (h1 v).2 (hinv.rc_ok v o ho hr) }
    have hstep := (ih1 a' b hb hinv').mono hle
    have hfix : check (.loop s0) a' = some a' := by
      simp only [check]
      exact iter_fix _ _ _ _ hb hle
    exact ih2 a' a' hfix hstep

/-- the entry state satisfies the invariant -/
theorem init_inv {n0 : Node} {h0 : Node → List Node} {params : List Var} {st : St}
    (hown : ∀ n, n < n0 → ∀ k ∈ h0 n, k < n0) (hi : Init n0 h0 params st) :
    Inv n0 h0 st (Abs.init params) := by
  refine ⟨by rw [hi.next_eq]; exact Nat.le_succ _, hi.heap_eq, ?_, ?_, ?_, ?_, by rw [hi.no_muts]; simp, by rw [hi.no_rets]; simp⟩
  · intro n hn k hk
    rw [hi.next_eq] at hn ⊢
    by_cases hlt : n < n0
    · rw [hi.heap_eq n hlt] at hk
      exact Nat.lt_succ_of_lt (hown n hlt k hk)
    · have : n = n0 := Nat.le_antisymm (Nat.le_of_lt_succ hn) (Nat.le_of_not_lt hlt)
      subst this
      rw [hi.heap_new] at hk
      simp at hk
  · intro v
    rw [hi.next_eq]
    by_cases hv : v ∈ params
    · exact Nat.lt_succ_of_lt (hi.params_owned v hv)
    · rw [hi.others_new v hv]; exact Nat.lt_succ_self _
  · intro v hv
    by_cases hp : v ∈ params
    · simp [Abs.init, Abs.ptB, testBit_maskOf, hp]
    · rw [hi.others_new v hp] at hv
      exact absurd hv (Nat.lt_irrefl _)
  · intro v o ho hr
    by_cases hp : v ∈ params
    · simp [Abs.init, Abs.rcB, testBit_maskOf, hp]
    · rw [hi.others_new v hp] at hr
      cases hr with
      | refl _ => exact absurd ho (Nat.lt_irrefl _)
      | step hk _ => rw [hi.heap_new] at hk; simp at hk

end BSE.Heap
