import BSEModel.Nwchem
import BSEProofs.Lemmas.PruneValid

/-! # NWChem electron section: reading what was written gives the shells back -/

namespace BSE.Nwchem
open BSE
variable {ν : Type}

/-! ## blocks -/

theorem blocksR_rows (rs : List (List ν)) (rest : List (Line ν)) :
    blocksR (rs.map Line.row ++ rest) = (rs ++ (blocksR rest).1, (blocksR rest).2) := by
  induction rs with
  | nil => simp
  | cons r rs ih => simp [blocksR, ih]

theorem blocksR_shell (T : Tables ν) (z : Nat) (sh : EShell ν) (rest : List (Line ν)) (hrest : (blocksR rest).1 = []) :
    blocksR (shellLines T z sh ++ rest)
      = ([], ([T.symOf z, T.amStr sh.am], zipStar (sh.exps :: sh.coefs)) :: (blocksR rest).2) := by
  simp only [shellLines, List.cons_append, blocksR, blocksR_rows, hrest, List.append_nil]

/-- what the writer emits for a list of (element, shell) pairs partitions into exactly one block per shell -/
theorem blocksR_shells (T : Tables ν) (zs : List (Nat × EShell ν)) :
    blocksR (zs.flatMap fun p => shellLines T p.1 p.2)
      = ([], zs.map fun p => ([T.symOf p.1, T.amStr p.2.am], zipStar (p.2.exps :: p.2.coefs))) := by
  induction zs with
  | nil => simp [blocksR]
  | cons p ps ih =>
    simp only [List.flatMap_cons, List.map_cons]
    rw [blocksR_shell T p.1 p.2 _ (by rw [ih])]
    rw [ih]

/-! ## the table of one shell -/

/-- rows of `[exponents, *coefficients]`, read back: first entries are the exponents, the rest transposes to the columns -/
theorem rows_of_shell (exps : List ν) (coefs : List (List ν)) (hne : coefs ≠ []) (hr : Rect exps.length coefs)
    (hpos : 0 < exps.length) :
    (zipStar (exps :: coefs)).filterMap List.head? = exps
    ∧ zipStar ((zipStar (exps :: coefs)).map List.tail) = coefs
    ∧ (∀ r ∈ zipStar (exps :: coefs), r.length = coefs.length + 1)
    ∧ (zipStar (exps :: coefs)).length = exps.length := by
  have hrect : Rect exps.length (exps :: coefs) := by
    intro c hc
    rcases List.mem_cons.1 hc with rfl | h
    · rfl
    · exact hr c h
  have hz := zipStar_closed (m := exps :: coefs) (by simp) hrect
  have hrow : ∀ i, i < exps.length → (exps :: coefs).filterMap (·[i]?) = exps[i]?.toList ++ coefs.filterMap (·[i]?) := by
    intro i hi
    simp [List.filterMap_cons, List.getElem?_eq_getElem hi]
  have hzc := zipStar_closed hne hr
  refine ⟨?_, ?_, ?_, ?_⟩
  · rw [hz, List.filterMap_map]
    have : (List.range exps.length).filterMap (List.head? ∘ fun i => (exps :: coefs).filterMap (·[i]?))
        = (List.range exps.length).filterMap (exps[·]?) := by
      apply filterMap_congr_mem
      intro i hi
      have hi' := List.mem_range.1 hi
      simp [Function.comp, List.filterMap_cons, List.getElem?_eq_getElem hi']
    rw [this]
    exact filterMap_range_getElem? _
  · have : (zipStar (exps :: coefs)).map List.tail = zipStar coefs := by
      rw [hz, hzc, List.map_map]
      apply List.map_congr_left
      intro i hi
      have hi' := List.mem_range.1 hi
      simp [Function.comp, List.filterMap_cons, List.getElem?_eq_getElem hi']
    rw [this]
    exact zipStar_involutive hne hr hpos
  · intro r hr'
    have := (zipStar_shape (m := exps.length) (rows := exps :: coefs) (by simp) hrect).2 r hr'
    simpa using this
  · exact (zipStar_shape (m := exps.length) (rows := exps :: coefs) (by simp) hrect).1

/-- the well-formedness the writer's input has after `uncontract_spdf(1)` / `sort_basis` (and the validator's rules) -/
structure ShellOK (T : Tables ν) (sh : EShell ν) : Prop where
  exps_ne : 0 < sh.exps.length
  coefs_ne : sh.coefs ≠ []
  rect : Rect sh.exps.length sh.coefs
  nums : (∀ e ∈ sh.exps, T.isNum e = true) ∧ ∀ c ∈ sh.coefs, ∀ x ∈ c, T.isNum x = true
  am_rt : T.amOf (T.amStr sh.am) = some sh.am ∧ isAlphaStr (T.amStr sh.am) = true
  fused : sh.am.length > 1 → sh.coefs.length = sh.am.length

theorem parseMatrix_shell (T : Tables ν) (sh : EShell ν) (ok : ShellOK T sh) :
    parseMatrix T (zipStar (sh.exps :: sh.coefs)) (if sh.am.length > 1 then some sh.am.length else none)
      = .ok (sh.exps, sh.coefs) := by
  obtain ⟨hhead, htail, hlen, hn⟩ := rows_of_shell sh.exps sh.coefs ok.coefs_ne ok.rect ok.exps_ne
  have hrect : Rect sh.exps.length (sh.exps :: sh.coefs) := by
    intro c hc
    rcases List.mem_cons.1 hc with rfl | h
    · rfl
    · exact ok.rect c h
  -- every token of every row is a number
  have hnum : ∀ r ∈ zipStar (sh.exps :: sh.coefs), ∀ x ∈ r, T.isNum x = true := by
    intro r hr x hx
    rw [zipStar_closed (m := sh.exps :: sh.coefs) (by simp) hrect] at hr
    obtain ⟨i, _, rfl⟩ := List.mem_map.1 hr
    obtain ⟨c, hc, hcx⟩ := List.mem_filterMap.1 hx
    have hxc : x ∈ c := List.mem_of_getElem? hcx
    rcases List.mem_cons.1 hc with rfl | hc'
    · exact ok.nums.1 x hxc
    · exact ok.nums.2 c hc' x hxc
  have hcoefpos : 0 < sh.coefs.length := List.length_pos_iff.2 ok.coefs_ne
  unfold parseMatrix
  have h1 : (zipStar (sh.exps :: sh.coefs)).any (badRow T) = false := by
    apply List.any_eq_false.2
    intro r hr
    have hl := hlen r hr
    cases r with
    | nil => simp at hl
    | cons e c =>
      have he := hnum _ hr e (by simp)
      have hc : c.all T.isNum = true := List.all_eq_true.2 (fun x hx => hnum _ hr x (by simp [hx]))
      simp [badRow, he, hc]
  rw [h1]
  simp only [Bool.false_eq_true, if_false]
  have hrows_ne : zipStar (sh.exps :: sh.coefs) ≠ [] := by
    intro h0; rw [h0] at hn; simp at hn; have := ok.exps_ne; omega
  have h2 : ((zipStar (sh.exps :: sh.coefs)).map List.tail).any
      (fun c => c.isEmpty || c.length != (((zipStar (sh.exps :: sh.coefs)).map List.tail).headD []).length) = false := by
    have hall : ∀ c ∈ (zipStar (sh.exps :: sh.coefs)).map List.tail, c.length = sh.coefs.length := by
      intro c hc
      obtain ⟨r, hr, rfl⟩ := List.mem_map.1 hc
      have := hlen r hr
      simp [this]
    apply List.any_eq_false.2
    intro c hc
    have hcl := hall c hc
    have hhd : (((zipStar (sh.exps :: sh.coefs)).map List.tail).headD []).length = sh.coefs.length := by
      cases hz : zipStar (sh.exps :: sh.coefs) with
      | nil => exact absurd hz hrows_ne
      | cons r rs =>
        simp only [List.map_cons, List.headD_cons]
        exact hall _ (by rw [hz]; simp)
    have hcne : c ≠ [] := by intro h0; rw [h0] at hcl; simp at hcl; omega
    have hce : c.isEmpty = false := by cases c <;> simp at hcne ⊢
    rw [hce, hcl, hhd]
    simp
  rw [h2]
  simp only [Bool.false_eq_true, if_false, htail]
  have h3 : ((zipStar (sh.exps :: sh.coefs)).isEmpty || sh.coefs.isEmpty) = false := by
    simp [hrows_ne, ok.coefs_ne]
  rw [h3]
  simp only [Bool.false_eq_true, if_false, hhead]
  split
  · rename_i n hn'
    split at hn'
    · rename_i hf
      cases hn'
      have := ok.fused hf
      simp [this]
    · cases hn'
  · rfl

/-- the shell the reader reconstructs -/
def toR (T : Tables ν) (spherical : Bool) (sh : EShell ν) : RShell ν :=
  { ftype := T.ftypeOf sh.am spherical, am := sh.am, exps := sh.exps, coefs := sh.coefs }

theorem parseBlock_shell (T : Tables ν) (spherical : Bool) (z : Nat) (sh : EShell ν) (ok : ShellOK T sh)
    (hz : T.zOf (T.symOf z) = some z ∧ isAlphaStr (T.symOf z) = true) :
    parseBlock T spherical ([T.symOf z, T.amStr sh.am], zipStar (sh.exps :: sh.coefs)) = .ok (z, toR T spherical sh) := by
  obtain ⟨_, _, _, hn⟩ := rows_of_shell sh.exps sh.coefs ok.coefs_ne ok.rect ok.exps_ne
  have hrows_ne : (zipStar (sh.exps :: sh.coefs)).isEmpty = false := by
    cases h0 : zipStar (sh.exps :: sh.coefs) with
    | nil => rw [h0] at hn; simp at hn; have := ok.exps_ne; omega
    | cons _ _ => rfl
  unfold parseBlock
  simp only [hrows_ne, Bool.false_eq_true, if_false, hz.2, ok.am_rt.2, Bool.and_self, Bool.not_true, ok.am_rt.1, hz.1,
    parseMatrix_shell T sh ok, toR]

/-! ## regrouping by element -/

theorem mapR_map {α β γ : Type} (f : β → Except RErr γ) (g : α → β) (h : α → γ) (l : List α)
    (hf : ∀ x ∈ l, f (g x) = .ok (h x)) : mapR f (l.map g) = .ok (l.map h) := by
  induction l with
  | nil => rfl
  | cons a as ih =>
    simp only [List.map_cons, mapR, hf a (by simp), ih (fun x hx => hf x (by simp [hx]))]

theorem addShell_new (acc : List (Nat × List (RShell ν))) (z : Nat) (sh : RShell ν) (h : z ∉ acc.map (·.1)) :
    addShell acc z sh = acc ++ [(z, [sh])] := by
  induction acc with
  | nil => rfl
  | cons a as ih =>
    obtain ⟨z0, shs⟩ := a
    have h0 : z0 ≠ z := fun e => h (by simp [e])
    simp only [addShell, h0, if_false, List.cons_append, ih (fun hm => h (by simp [hm]))]

theorem addShell_last (acc : List (Nat × List (RShell ν))) (z : Nat) (shs : List (RShell ν)) (sh : RShell ν)
    (h : z ∉ acc.map (·.1)) : addShell (acc ++ [(z, shs)]) z sh = acc ++ [(z, shs ++ [sh])] := by
  induction acc with
  | nil => simp [addShell]
  | cons a as ih =>
    obtain ⟨z0, s0⟩ := a
    have h0 : z0 ≠ z := fun e => h (by simp [e])
    simp only [List.cons_append, addShell, h0, if_false, ih (fun hm => h (by simp [hm]))]

theorem fold_same_key (acc : List (Nat × List (RShell ν))) (z : Nat) (pre ss : List (RShell ν)) (h : z ∉ acc.map (·.1)) :
    (ss.map fun s => (z, s)).foldl (fun a zs => addShell a zs.1 zs.2) (acc ++ [(z, pre)]) = acc ++ [(z, pre ++ ss)] := by
  induction ss generalizing pre with
  | nil => simp
  | cons s ss ih =>
    simp only [List.map_cons, List.foldl_cons, addShell_last acc z pre s h]
    rw [ih (pre ++ [s])]
    simp

theorem fold_element (acc : List (Nat × List (RShell ν))) (z : Nat) (ss : List (RShell ν)) (hne : ss ≠ [])
    (h : z ∉ acc.map (·.1)) :
    (ss.map fun s => (z, s)).foldl (fun a zs => addShell a zs.1 zs.2) acc = acc ++ [(z, ss)] := by
  cases ss with
  | nil => exact absurd rfl hne
  | cons s ss =>
    simp only [List.map_cons, List.foldl_cons, addShell_new acc z s h]
    have := fold_same_key acc z [s] ss h
    simpa using this

theorem fold_elements (els : List (Nat × List (RShell ν))) :
    ∀ (acc : List (Nat × List (RShell ν))), ((acc ++ els).map (·.1)).Nodup → (∀ e ∈ els, e.2 ≠ []) →
      (els.flatMap fun e => e.2.map fun s => (e.1, s)).foldl (fun a zs => addShell a zs.1 zs.2) acc = acc ++ els := by
  induction els with
  | nil => intro acc _ _; simp
  | cons e es ih =>
    intro acc hnd hne
    simp only [List.flatMap_cons, List.foldl_append]
    have hz : e.1 ∉ acc.map (·.1) := by
      intro hm
      have hnd' := hnd
      simp only [List.map_append, List.map_cons] at hnd'
      have := (List.nodup_append.1 hnd').2.2 e.1 hm e.1 (by simp)
      exact this rfl
    rw [fold_element acc e.1 e.2 (hne e (by simp)) hz]
    have := ih (acc ++ [e]) (by simpa using hnd) (fun e' he' => hne e' (by simp [he']))
    simpa using this

/-! ## the round trip -/

theorem filter_body (T : Tables ν) (zs : List (Nat × EShell ν)) :
    (zs.flatMap fun p => shellLines T p.1 p.2).filter (fun l => !isEnd l) = zs.flatMap fun p => shellLines T p.1 p.2 := by
  apply List.filter_eq_self.2
  intro l hl
  obtain ⟨p, _, hlp⟩ := List.mem_flatMap.1 hl
  simp only [shellLines, List.mem_cons, List.mem_map] at hlp
  rcases hlp with rfl | ⟨r, _, rfl⟩ <;> simp [isEnd]

theorem pairs_flat (T : Tables ν) (els : List (Nat × List (EShell ν))) :
    (els.flatMap fun e => e.2.flatMap (shellLines T e.1))
      = (els.flatMap fun e => e.2.map fun sh => (e.1, sh)).flatMap fun p => shellLines T p.1 p.2 := by
  induction els with
  | nil => rfl
  | cons e es ih =>
    simp only [List.flatMap_cons, List.flatMap_append, ih, List.flatMap_map]

/-- **reading the NWChem electron section that the writer produced gives back every element, in order, with every shell,
in order: momenta, exponents and coefficient columns unchanged, function type recomputed from the momenta** -/
theorem readElectron_write (T : Tables ν) (harm : Str) (els : List (Nat × List (EShell ν)))
    (hharm : harm = "SPHERICAL".toList ∨ harm = "CARTESIAN".toList)
    (hnd : (els.map (·.1)).Nodup) (hne : ∀ e ∈ els, e.2 ≠ [])
    (hz : ∀ e ∈ els, T.zOf (T.symOf e.1) = some e.1 ∧ isAlphaStr (T.symOf e.1) = true)
    (hok : ∀ e ∈ els, ∀ sh ∈ e.2, ShellOK T sh) :
    readElectron T (electronLines T harm els)
      = .ok (els.map fun e => (e.1, e.2.map (toR T (harm == "SPHERICAL".toList)))) := by
  have hlow : (lower "END".toList == "end".toList) = true := by decide +kernel
  have hend : isEnd (Line.head (ν := ν) ["END".toList]) = true := by simp only [isEnd]; exact hlow
  have hhdr : isEnd (Line.head (ν := ν) ["BASIS".toList, "\"ao".toList, "basis\"".toList, harm, "PRINT".toList]) = false := rfl
  unfold readElectron electronLines
  rw [pairs_flat]
  simp only [List.filter_cons, hhdr, Bool.not_false, if_true, List.filter_append, filter_body, hend, Bool.not_true,
    Bool.false_eq_true, if_false, List.filter_nil, List.append_nil]
  have hbasis : (!("basis".toList.isPrefixOf (lower "BASIS".toList))) = false := by decide +kernel
  have hsph : (["BASIS".toList, "\"ao".toList, "basis\"".toList, harm, "PRINT".toList].any fun t => hasSub "spherical".toList (lower t))
      = (harm == "SPHERICAL".toList) := by
    rcases hharm with rfl | rfl <;> decide +kernel
  simp only [hbasis, Bool.false_eq_true, if_false, hsph, blocksR_shells, List.isEmpty_nil, Bool.not_true]
  rw [mapR_map (parseBlock T (harm == "SPHERICAL".toList)) _ (fun p => (p.1, toR T (harm == "SPHERICAL".toList) p.2))]
  · simp only
    have hfl : ((els.flatMap fun e => e.2.map fun sh => (e.1, sh)).map fun p => (p.1, toR T (harm == "SPHERICAL".toList) p.2))
        = (els.map fun e => (e.1, e.2.map (toR T (harm == "SPHERICAL".toList)))).flatMap fun e => e.2.map fun s => (e.1, s) := by
      induction els with
      | nil => rfl
      | cons e es ih =>
        simp only [List.flatMap_cons, List.map_append, List.map_cons, List.map_map]
        rw [ih (List.nodup_cons.1 (by simpa using hnd)).2 (fun e' he' => hne e' (by simp [he']))
          (fun e' he' => hz e' (by simp [he'])) (fun e' he' => hok e' (by simp [he']))]
        rfl
    rw [hfl]
    have := fold_elements (els.map fun e => (e.1, e.2.map (toR T (harm == "SPHERICAL".toList)))) []
      (by simpa [List.map_map, Function.comp_def] using hnd)
      (by
        intro e he
        obtain ⟨e0, he0, rfl⟩ := List.mem_map.1 he
        simpa using hne e0 he0)
    rw [this]; simp
  · intro p hp
    obtain ⟨e, he, hpe⟩ := List.mem_flatMap.1 hp
    obtain ⟨sh, hsh, rfl⟩ := List.mem_map.1 hpe
    exact parseBlock_shell T _ e.1 sh (hok e he sh hsh) (hz e he)

end BSE.Nwchem
