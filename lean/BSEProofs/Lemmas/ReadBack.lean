import BSEModel.Header
import BSEModel.Notation
import BSEProofs.Lemmas.Resplit

/-! # A line-pruning reader does not see the header

Every reader starts with `lines = text.splitlines()` and `helpers.prune_lines(lines, skipchars)`: strip every line, drop the
blank ones and the ones whose first character is one of `skipchars`.  If the comment marker of the format starts with such a
character, the lines of the header block all disappear, and so do the blank lines that separate it from the data. -/

namespace BSE.Header
open BSE.Notation (isPySpace)

theorem pruneLines_append (skip : List Char) (a b : List Str) : pruneLines skip (a ++ b) = pruneLines skip a ++ pruneLines skip b := by
  simp [pruneLines, List.map_append, List.filter_append]

/-- text that ends with a line feed: what follows starts a new line -/
theorem splitAux_append_lf (A : Str) : ∀ (cur B : Str), A.getLast? = some '\n' →
    splitAux (A ++ B) cur = splitAux A cur ++ splitAux B [] := by
  intro cur B
  fun_induction splitAux A cur with
  | case1 cur hc => intro h; simp at h
  | case2 cur hc => intro h; simp at h
  | case3 rest cur ih =>
    intro h
    by_cases hr : rest = []
    · subst hr
      simp [splitAux]
    · have h' : rest.getLast? = some '\n' := by
        cases rest with
        | nil => exact absurd rfl hr
        | cons x xs => simpa [List.getLast?_cons_cons] using h
      have := ih h'
      simp only [List.cons_append, splitAux, this, List.cons_append]
  | case4 c rest cur hnot hb ih =>
    intro h
    by_cases hr : rest = []
    · subst hr
      have hc : c = '\n' := by simpa using h
      subst hc
      have : splitAux ('\n' :: B) cur = (cur.reverse ++ ['\n']) :: splitAux B [] := by
        rw [splitAux]
        · simp [isBreak]
        · intro r h1; exact absurd h1 (by decide)
      simp [this, splitAux, isBreak]
    · have h' : rest.getLast? = some '\n' := by
        cases rest with
        | nil => exact absurd rfl hr
        | cons x xs => rw [List.getLast?_cons_cons] at h; exact h
      have hstep : splitAux (c :: (rest ++ B)) cur = (cur.reverse ++ [c]) :: splitAux (rest ++ B) [] := by
        rw [splitAux]
        · simp [hb]
        · intro r h1
          -- c = '\r' and rest ++ B starts with '\n': then rest starts with '\n' (rest ≠ []), excluded by `hnot`
          cases rest with
          | nil => exact absurd rfl hr
          | cons x xs =>
            intro h2
            simp only [List.cons_append, List.cons.injEq] at h2
            exact hnot xs h1 (by rw [h2.1])
      have hstep0 : splitAux (c :: rest) cur = (cur.reverse ++ [c]) :: splitAux rest [] := by
        rw [splitAux]
        · simp [hb]
        · intro r h1 h2; exact hnot r h1 h2
      simp only [List.cons_append, hstep, hstep0, ih h']
  | case5 c rest cur hnot hb ih =>
    intro h
    have hr : rest ≠ [] := by
      intro hr
      subst hr
      have hc : c = '\n' := by simpa using h
      subst hc
      simp [isBreak] at hb
    have h' : rest.getLast? = some '\n' := by
      cases rest with
      | nil => exact absurd rfl hr
      | cons x xs => rw [List.getLast?_cons_cons] at h; exact h
    have hcr : c ≠ '\r' := by intro hc; subst hc; simp [isBreak] at hb
    have hstep : splitAux (c :: (rest ++ B)) cur = splitAux (rest ++ B) (c :: cur) := by
      rw [splitAux]
      · simp [hb]
      · intro r h1; exact absurd h1 hcr
    have hstep0 : splitAux (c :: rest) cur = splitAux rest (c :: cur) := by
      rw [splitAux]
      · simp [hb]
      · intro r h1; exact absurd h1 hcr
    simp only [List.cons_append, hstep, hstep0, ih h']

theorem splitlinesKeep_append_lf (A B : Str) (h : A.getLast? = some '\n') :
    splitlinesKeep (A ++ B) = splitlinesKeep A ++ splitlinesKeep B :=
  splitAux_append_lf A [] B h

/-- a line behind a marker that starts with a skipped, non-blank character is pruned -/
theorem pruneLines_marked (skip : List Char) (c : Str) (c0 : Char) (cs : Str) (hc : c = c0 :: cs)
    (hskip : skip.contains c0 = true) (hsp : isPySpace c0 = false) (lines : List Str)
    (h : ∀ l ∈ lines, c.isPrefixOf l = true) : pruneLines skip lines = [] := by
  unfold pruneLines
  rw [List.filter_eq_nil_iff]
  intro l hl
  obtain ⟨hl1, hl2⟩ := List.mem_filter.1 hl
  obtain ⟨l0, hl0, rfl⟩ := List.mem_map.1 hl1
  have hp := h l0 hl0
  rw [hc] at hp
  -- l0 = c0 :: rest ; strip keeps c0 in front
  cases l0 with
  | nil => simp at hp
  | cons x xs =>
    have hx : c0 = x := by
      simp only [List.isPrefixOf, Bool.and_eq_true, beq_iff_eq] at hp
      exact hp.1
    have hspx : isPySpace x = false := hx ▸ hsp
    have hskx : skip.contains x = true := hx ▸ hskip
    have hdw : (x :: xs).dropWhile isPySpace = x :: xs := by simp [List.dropWhile, hspx]
    have key : ∀ (r : Str), ∃ t, ((r ++ [x]).dropWhile isPySpace).reverse = x :: t := by
      intro r
      induction r with
      | nil => exact ⟨[], by simp [List.dropWhile, hspx]⟩
      | cons y ys ih =>
        by_cases hy : isPySpace y = true
        · simp only [List.cons_append, List.dropWhile, hy]; exact ih
        · simp only [List.cons_append, List.dropWhile, hy]
          exact ⟨(y :: ys).reverse, by simp⟩
    have hstrip : ∃ t, stripLine (x :: xs) = x :: t := by
      unfold stripLine
      rw [hdw]
      have hrev : (x :: xs).reverse = xs.reverse ++ [x] := by simp
      rw [hrev]
      exact key xs.reverse
    obtain ⟨t, ht⟩ := hstrip
    rw [ht] at hl2
    have hmem : x ∈ skip := by simpa using hskx
    have hnot : ¬ x ∈ skip := by simpa using hl2
    exact absurd hmem hnot

/-- blank separator lines are pruned -/
theorem readerLines_lf_lf (skip : List Char) (body : Str) :
    readerLines skip ('\n' :: '\n' :: body) = readerLines skip body := by
  unfold readerLines
  have h : splitlinesKeep ('\n' :: '\n' :: body) = ['\n'] :: ['\n'] :: splitlinesKeep body := by
    have := splitlinesKeep_append_lf ['\n', '\n'] body (by simp)
    simp only [List.cons_append, List.nil_append] at this
    rw [this]
    have h2 : splitlinesKeep ['\n', '\n'] = [['\n'], ['\n']] := by decide
    rw [h2]
    rfl
  rw [h]
  have : pruneLines skip ([['\n'], ['\n']] ++ splitlinesKeep body) = pruneLines skip [['\n'], ['\n']] ++ pruneLines skip (splitlinesKeep body) :=
    pruneLines_append _ _ _
  have h0 : pruneLines skip [['\n'], ['\n']] = [] := by
    simp [pruneLines, stripLine, List.dropWhile, isPySpace]
  simpa [h0] using this

/-- **the comment block (ending with a line feed) in front of a text is invisible to the reader** -/
theorem readerLines_block (skip : List Char) (c : Str) (c0 : Char) (cs : Str) (hc : c = c0 :: cs)
    (hskip : skip.contains c0 = true) (hsp : isPySpace c0 = false) (hnb : NoBreak c)
    (h : Str) (hne : h ≠ []) (hlf : (commentBlock c h).getLast? = some '\n') (rest : Str) :
    readerLines skip (commentBlock c h ++ rest) = readerLines skip rest := by
  unfold readerLines
  rw [splitlinesKeep_append_lf _ _ hlf, pruneLines_append]
  have hcne : c ≠ [] := by rw [hc]; simp
  rw [pruneLines_marked skip c c0 cs hc hskip hsp _ (commentBlock_lines_marked c hnb hcne h hne)]
  rfl

/-! the block ends with the character the header ends with -/

theorem splitAux_last (h : Str) : ∀ (cur : Str), (h ≠ [] ∨ cur ≠ []) →
    ∃ l, (splitAux h cur).getLast? = some l ∧ l.getLast? = (cur.reverse ++ h).getLast? := by
  intro cur
  fun_induction splitAux h cur with
  | case1 cur hc => intro h; rcases h with h | h <;> simp_all
  | case2 cur hc => intro _; exact ⟨cur.reverse, by simp, by simp⟩
  | case3 rest cur ih =>
    intro _
    by_cases hr : rest = []
    · subst hr
      exact ⟨cur.reverse ++ ['\r', '\n'], by simp [splitAux], by simp⟩
    · obtain ⟨l, h1, h2⟩ := ih (Or.inl hr)
      refine ⟨l, ?_, ?_⟩
      · rw [List.getLast?_cons]
        simp [h1]
      · rw [h2]
        cases rest with
        | nil => exact absurd rfl hr
        | cons x xs =>
          simp only [List.reverse_nil, List.nil_append, List.getLast?_append]
          cases hh : (x :: xs).getLast? with
          | none => exact absurd (List.getLast?_eq_none_iff.1 hh) (by simp)
          | some ch => simp [List.getLast?_cons_cons, hh]
  | case4 c rest cur hnot hb ih =>
    intro _
    by_cases hr : rest = []
    · subst hr
      exact ⟨cur.reverse ++ [c], by simp [splitAux], by simp⟩
    · obtain ⟨l, h1, h2⟩ := ih (Or.inl hr)
      refine ⟨l, ?_, ?_⟩
      · rw [List.getLast?_cons]
        simp [h1]
      · rw [h2]
        cases rest with
        | nil => exact absurd rfl hr
        | cons x xs =>
          simp only [List.reverse_nil, List.nil_append, List.getLast?_append]
          cases hh : (x :: xs).getLast? with
          | none => exact absurd (List.getLast?_eq_none_iff.1 hh) (by simp)
          | some ch => simp [List.getLast?_cons_cons, hh]
  | case5 c rest cur hnot hb ih =>
    intro _
    obtain ⟨l, h1, h2⟩ := ih (Or.inr (by simp))
    exact ⟨l, h1, by rw [h2]; simp⟩

theorem joinWith_last (c : Str) : ∀ (L : List Str) (l : Str), L.getLast? = some l → l ≠ [] →
    (joinWith c L).getLast? = l.getLast? := by
  intro L
  induction L with
  | nil => intro l h; simp at h
  | cons x xs ih =>
    intro l h hl
    cases xs with
    | nil =>
      simp only [List.getLast?_singleton, Option.some.injEq] at h
      subst h
      rfl
    | cons y ys =>
      rw [List.getLast?_cons_cons] at h
      have := ih l h hl
      simp only [joinWith]
      rw [List.getLast?_append, this]
      cases hl' : l.getLast? with
      | none => exact absurd (List.getLast?_eq_none_iff.1 hl') hl
      | some ch => simp

/-- the comment block ends with the character the header text ends with -/
theorem commentBlock_last (c h : Str) (hne : h ≠ []) : (commentBlock c h).getLast? = h.getLast? := by
  obtain ⟨l, h1, h2⟩ := splitAux_last h [] (Or.inl hne)
  have hl : l ≠ [] := by
    intro h0
    rw [h0] at h2
    simp only [List.getLast?_nil, List.reverse_nil, List.nil_append] at h2
    exact hne (List.getLast?_eq_none_iff.1 h2.symm)
  unfold commentBlock
  have hj := joinWith_last c (splitlinesKeep h) l h1 hl
  rw [List.getLast?_append, hj, h2]
  simp only [List.reverse_nil, List.nil_append]
  cases hh : h.getLast? with
  | none => exact absurd (List.getLast?_eq_none_iff.1 hh) hne
  | some ch => simp

end BSE.Header
