import BSEModel.TurbomoleEcp
import BSEProofs.Lemmas.TurbomoleRT
import BSEProofs.Lemmas.NwchemEcp

/-! # Turbomole `$ecp` section: reading what was written gives the potentials back -/

namespace BSE.Turbomole
open BSE
open BSE.Nwchem (Str RErr EPot RPot writeOrder mapR maxAmOf mem_writeOrder elShape_of_distinct)
variable {ν : Type}

/-- an element block without its closing `*` -/
def elemBlockP (T : PTables ν) (name : Str) (e : Nat × Str × List (EPot ν)) : List (PLine ν) :=
  .elem (T.symOf e.1) name :: .star :: .info e.2.1 (T.natStr (maxAmOf e.2.2))
    :: (writeOrder e.2.2).flatMap (potLinesP T (maxAmOf e.2.2))

theorem ecpLinesP_eq (T : PTables ν) (name : Str) (els : List (Nat × Str × List (EPot ν))) :
    ecpLinesP T name els = .star :: ((els.map (elemBlockP T name)).map (· ++ [PLine.star])).flatten := by
  unfold ecpLinesP
  congr 1
  induction els with
  | nil => rfl
  | cons e es ih =>
    simp only [List.flatMap_cons, List.map_cons, List.flatten_cons, ih, ecpElementLinesP, elemBlockP, maxAmOf, List.cons_append]

theorem potLines_plain (T : PTables ν) (m : Nat) (ps : List (EPot ν)) :
    ∀ x ∈ ps.flatMap (potLinesP T m), pIsElem x = false ∧ pIsStarLike x = false := by
  intro x hx
  obtain ⟨p, _, hp⟩ := List.mem_flatMap.1 hx
  simp only [potLinesP, List.mem_cons, List.mem_map] at hp
  rcases hp with rfl | ⟨r, _, rfl⟩ <;> simp [pIsElem, pIsStarLike]

def rawBlocksP (T : PTables ν) (name : Str) (els : List (Nat × Str × List (EPot ν))) : List (List (PLine ν)) :=
  ((els.map (elemBlockP T name)).dropLast.map fun b => b ++ [PLine.star]) ++ (els.map (elemBlockP T name)).getLast?.toList

theorem splitAt_rawP (T : PTables ν) (name : Str) (els : List (Nat × Str × List (EPot ν))) :
    splitAt pIsElem (rawBlocksP T name els).flatten = ([], rawBlocksP T name els) := by
  have hshape : ∀ b ∈ rawBlocksP T name els, ∃ h t, b = h :: t ∧ pIsElem h = true ∧ ∀ x ∈ t, pIsElem x = false := by
    intro b hb
    unfold rawBlocksP at hb
    rcases List.mem_append.1 hb with hb | hb
    · obtain ⟨b0, hb0, rfl⟩ := List.mem_map.1 hb
      obtain ⟨e, _, rfl⟩ := List.mem_map.1 (List.dropLast_subset _ hb0)
      refine ⟨.elem (T.symOf e.1) name, _, rfl, rfl, ?_⟩
      intro x hx
      have hx' : x = PLine.star ∨ x = PLine.info e.2.1 (T.natStr (maxAmOf e.2.2))
          ∨ x ∈ (writeOrder e.2.2).flatMap (potLinesP T (maxAmOf e.2.2)) ∨ x = PLine.star := by
        simpa [elemBlockP] using hx
      rcases hx' with rfl | rfl | hx | rfl
      · rfl
      · rfl
      · exact (potLines_plain T _ _ x hx).1
      · rfl
    · have hb' : b ∈ els.map (elemBlockP T name) := List.mem_of_getLast? (Option.mem_toList.1 hb)
      obtain ⟨e, _, rfl⟩ := List.mem_map.1 hb'
      refine ⟨.elem (T.symOf e.1) name, _, rfl, rfl, ?_⟩
      intro x hx
      simp only [List.mem_cons] at hx
      rcases hx with rfl | rfl | hx
      · rfl
      · rfl
      · exact (potLines_plain T _ _ x hx).1
  generalize rawBlocksP T name els = R at hshape
  induction R with
  | nil => rfl
  | cons b bs ih =>
    obtain ⟨h, t, rfl, hh, ht⟩ := hshape b (by simp)
    have ihb := ih (fun b' hb' => hshape b' (by simp [hb']))
    simp only [List.flatten_cons, List.cons_append]
    rw [splitAt_hit pIsElem h _ hh, splitAt_none pIsElem t _ ht, ihb]
    simp

/-! ## potentials -/

structure PotOKP (T : PTables ν) (p : EPot ν) : Prop where
  terms_ne : p.terms ≠ []
  r_int : ∀ t ∈ p.terms, T.isInt t.1 = true
  g_num : ∀ t ∈ p.terms, T.isNum t.2.1 = true
  c_num : ∀ t ∈ p.terms, T.isNum t.2.2 = true
  /-- the letter the writer prints is read back as this momentum (true up to l = 6; the two letter conventions part at 7) -/
  letter : T.amOfLetter (T.amLetter p.am) = some [p.am]

def readPotP (p : EPot ν) : RPot ν :=
  { am := some [p.am], rexp := p.terms.map (·.1), gexp := p.terms.map (·.2.1), coef := p.terms.map (·.2.2) }

theorem parseTableP_terms (T : PTables ν) (p : EPot ν) (ok : PotOKP T p) :
    parseTableP T (p.terms.map fun t => PLine.row [t.2.2, t.1, t.2.1])
      = .ok (p.terms.map (·.1), p.terms.map (·.2.1), p.terms.map (·.2.2)) := by
  unfold parseTableP
  simp only [List.map_map, Function.comp_def]
  have h3 : (p.terms.map fun t => [t.2.2, t.1, t.2.1]).any (fun r => r.length != 3) = false := by
    apply List.any_eq_false.2
    intro r hr
    obtain ⟨t, _, rfl⟩ := List.mem_map.1 hr
    simp
  have e0 : (p.terms.map fun t => [t.2.2, t.1, t.2.1]).filterMap (·[0]?) = p.terms.map (·.2.2) := by
    rw [List.filterMap_map]; simp [Function.comp_def, List.filterMap_eq_map]
  have e1 : (p.terms.map fun t => [t.2.2, t.1, t.2.1]).filterMap (·[1]?) = p.terms.map (·.1) := by
    rw [List.filterMap_map]; simp [Function.comp_def, List.filterMap_eq_map]
  have e2 : (p.terms.map fun t => [t.2.2, t.1, t.2.1]).filterMap (·[2]?) = p.terms.map (·.2.1) := by
    rw [List.filterMap_map]; simp [Function.comp_def, List.filterMap_eq_map]
  have hr : (p.terms.map (·.1)).all T.isInt = true := by
    simp only [List.all_map, List.all_eq_true]; exact fun t ht => ok.r_int t ht
  have hg : (p.terms.map (·.2.1)).all T.isNum = true := by
    simp only [List.all_map, List.all_eq_true]; exact fun t ht => ok.g_num t ht
  have hc : (p.terms.map (·.2.2)).all T.isNum = true := by
    simp only [List.all_map, List.all_eq_true]; exact fun t ht => ok.c_num t ht
  simp only [h3, Bool.false_eq_true, if_false, e0, e1, e2, hr, hg, hc, Bool.not_true]

/-- the highest potential (written without a base letter), read while no other was found yet -/
theorem parsePotP_top (T : PTables ν) (L : Nat) (p : EPot ν) (ok : PotOKP T p) (hL : p.am = L) :
    parsePotP T L false (potLinesP T L p) = .ok (readPotP p, true) := by
  unfold parsePotP potLinesP
  have hne : (p.terms.map fun t => PLine.row (ν := ν) [t.2.2, t.1, t.2.1]).isEmpty = false := by
    cases ht : p.terms with
    | nil => exact absurd ht ok.terms_ne
    | cons a as => rfl
  simp only [hL, if_true, hne, Bool.false_eq_true, if_false]
  rw [← hL, ok.letter]
  simp only [List.headD_cons, bne_self_eq_false, Bool.false_eq_true, if_false, parseTableP_terms T p ok]
  rfl

/-- every other potential (written `x-L`), whatever was found before -/
theorem parsePotP_lower (T : PTables ν) (L : Nat) (found : Bool) (p : EPot ν) (ok : PotOKP T p) (hL : p.am ≠ L)
    (hletter : T.amOfLetter (T.amLetter L) = some [L]) :
    parsePotP T L found (potLinesP T L p) = .ok (readPotP p, found) := by
  unfold parsePotP potLinesP
  have hne : (p.terms.map fun t => PLine.row (ν := ν) [t.2.2, t.1, t.2.1]).isEmpty = false := by
    cases ht : p.terms with
    | nil => exact absurd ht ok.terms_ne
    | cons a as => rfl
  simp only [hL, if_false, hne, Bool.false_eq_true, ok.letter, hletter, List.headD_cons, bne_self_eq_false,
    parseTableP_terms T p ok]
  rfl

theorem parsePotsP_lower (T : PTables ν) (L : Nat) (found : Bool) (ps : List (EPot ν)) (ok : ∀ p ∈ ps, PotOKP T p)
    (hL : ∀ p ∈ ps, p.am ≠ L) (hletter : T.amOfLetter (T.amLetter L) = some [L]) :
    parsePotsP T L found (ps.map (potLinesP T L)) = .ok (ps.map readPotP) := by
  induction ps with
  | nil => rfl
  | cons p ps ih =>
    simp only [List.map_cons, parsePotsP, parsePotP_lower T L found p (ok p (by simp)) (hL p (by simp)) hletter,
      ih (fun q hq => ok q (by simp [hq])) (fun q hq => hL q (by simp [hq]))]

theorem splitAt_pots (T : PTables ν) (L : Nat) (ps : List (EPot ν)) :
    splitAt pIsAlpha (ps.flatMap (potLinesP T L)) = ([], ps.map (potLinesP T L)) := by
  have h := splitAt_blocks pIsAlpha
    (ps.map fun p => (PLine.title (ν := ν) (T.amLetter p.am) (if p.am = L then none else some (T.amLetter L)),
      p.terms.map fun t => PLine.row [t.2.2, t.1, t.2.1]))
    (by intro b hb; obtain ⟨p, _, rfl⟩ := List.mem_map.1 hb; rfl)
    (by intro b hb x hx
        obtain ⟨p, _, rfl⟩ := List.mem_map.1 hb
        obtain ⟨t, _, rfl⟩ := List.mem_map.1 hx
        rfl)
  simp only [List.flatMap_map, List.map_map, Function.comp_def] at h
  exact h

/-- the shape `writeOrder` gives when the momenta are pairwise different: nothing, or the highest first and no other of that momentum -/
def PShape (e : Nat × Str × List (EPot ν)) : Prop :=
  writeOrder e.2.2 = [] ∨
  ∃ top rest, writeOrder e.2.2 = top :: rest ∧ top.am = maxAmOf e.2.2 ∧ ∀ r ∈ rest, r.am ≠ maxAmOf e.2.2

theorem pShape_of_distinct (e : Nat × Str × List (EPot ν)) (hn : (e.2.2.map (·.am)).Nodup) : PShape e := by
  obtain ⟨z, nm, ps⟩ := e
  cases ps with
  | nil => left; simp [writeOrder]
  | cons p ps =>
    cases ps with
    | nil =>
      right
      exact ⟨p, [], by simp [writeOrder, Nwchem.insertPot], by simp [maxAmOf], by simp⟩
    | cons q qs =>
      right
      obtain ⟨top, rest, h1, h2, _, h4⟩ := (elShape_of_distinct (z, nm, p :: q :: qs) hn (by simp)).shape
      exact ⟨top, rest, h1, h2, h4⟩

structure ElOKP (T : PTables ν) (e : Nat × Str × List (EPot ν)) (n : Nat) : Prop where
  sym : T.zOf (T.symOf e.1) = some e.1
  nelec : T.natOf e.2.1 = some n
  lmax_rt : T.natOf (T.natStr (maxAmOf e.2.2)) = some (maxAmOf e.2.2)
  lmax_letter : T.amOfLetter (T.amLetter (maxAmOf e.2.2)) = some [maxAmOf e.2.2]
  pots : ∀ p ∈ e.2.2, PotOKP T p
  shape : PShape e

theorem parseEcpElementP_written (T : PTables ν) (name : Str) (e : Nat × Str × List (EPot ν)) (n : Nat) (ok : ElOKP T e n)
    (seen : List Nat) (hseen : e.1 ∉ seen) :
    parseEcpElementP T seen (PLine.star :: elemBlockP T name e) = .ok (e.1, n, (writeOrder e.2.2).map readPotP) := by
  unfold parseEcpElementP elemBlockP
  have hs : seen.contains e.1 = false := by simpa using hseen
  simp only [ok.sym, hs, Bool.false_eq_true, if_false, ok.nelec, ok.lmax_rt, splitAt_pots, List.isEmpty_nil, if_true]
  have hlen : ((writeOrder e.2.2).map (potLinesP T (maxAmOf e.2.2))).any (fun b => decide (b.length < 2)) = false := by
    apply List.any_eq_false.2
    intro b hb
    obtain ⟨p, hp, rfl⟩ := List.mem_map.1 hb
    have := (ok.pots p ((mem_writeOrder e.2.2 p).1 hp)).terms_ne
    cases ht : p.terms with
    | nil => exact absurd ht this
    | cons a as => simp [potLinesP, ht]
  rw [hlen]
  simp only [Bool.false_eq_true, if_false]
  rcases ok.shape with h0 | ⟨top, rest, hw, htop, hrest⟩
  · rw [h0]; rfl
  · rw [hw]
    have hoktop := ok.pots top ((mem_writeOrder e.2.2 top).1 (by rw [hw]; simp))
    have hokrest : ∀ r ∈ rest, PotOKP T r := fun r hr => ok.pots r ((mem_writeOrder e.2.2 r).1 (by rw [hw]; simp [hr]))
    simp only [List.map_cons, parsePotsP, parsePotP_top T _ top hoktop htop,
      parsePotsP_lower T _ true rest hokrest hrest ok.lmax_letter]

theorem parseEcpElementsP_written (T : PTables ν) (name : Str) (count : Nat × Str × List (EPot ν) → Nat)
    (els : List (Nat × Str × List (EPot ν))) (hok : ∀ e ∈ els, ElOKP T e (count e)) :
    ∀ (seen : List Nat), (∀ e ∈ els, e.1 ∉ seen) → (els.map (·.1)).Nodup →
      parseEcpElementsP T seen (els.map fun e => PLine.star :: elemBlockP T name e)
        = .ok (els.map fun e => (e.1, count e, (writeOrder e.2.2).map readPotP)) := by
  induction els with
  | nil => intro _ _ _; rfl
  | cons e es ih =>
    intro seen hs hnd
    have hnd' : e.1 ∉ es.map (·.1) ∧ (es.map (·.1)).Nodup := by simpa using hnd
    simp only [List.map_cons, parseEcpElementsP,
      parseEcpElementP_written T name e (count e) (hok e (by simp)) seen (hs e (by simp))]
    rw [ih (fun x hx => hok x (by simp [hx])) (e.1 :: seen) ?_ hnd'.2]
    intro x hx hmem
    rcases List.mem_cons.1 hmem with h | h
    · exact hnd'.1 (List.mem_map.2 ⟨x, hx, h⟩)
    · exact hs x (by simp [hx]) h

/-- **Turbomole `$ecp` section: read(write(potentials)) = potentials** — every element in order with its electron count, every
potential in write order (highest momentum first) with its own momentum and its terms token for token -/
theorem readEcpP_write (T : PTables ν) (name : Str) (count : Nat × Str × List (EPot ν) → Nat)
    (els : List (Nat × Str × List (EPot ν))) (hne : els ≠ [])
    (hnd : (els.map (·.1)).Nodup) (hok : ∀ e ∈ els, ElOKP T e (count e)) :
    readEcpP T (ecpLinesP T name els) = .ok (els.map fun e => (e.1, count e, (writeOrder e.2.2).map readPotP)) := by
  have hM : els.map (elemBlockP T name) ≠ [] := by simpa using hne
  rw [ecpLinesP_eq, flatten_dropLast_blocks PLine.star _ hM]
  show readEcpP T (PLine.star :: ((rawBlocksP T name els).flatten ++ [PLine.star])) = _
  unfold readEcpP
  have hrev : (PLine.star :: ((rawBlocksP T name els).flatten ++ [PLine.star (ν := ν)])).reverse
      = PLine.star :: (PLine.star :: (rawBlocksP T name els).flatten).reverse := by simp
  rw [hrev]
  simp only [List.reverse_reverse]
  have hsplit : splitAt pIsElem (PLine.star (ν := ν) :: (rawBlocksP T name els).flatten) = ([PLine.star], rawBlocksP T name els) := by
    simp [splitAt, pIsElem, splitAt_rawP]
  rw [hsplit]
  simp only [List.isEmpty_cons, Bool.false_eq_true, if_false]
  have hraw_ne : rawBlocksP T name els ≠ [] := by
    unfold rawBlocksP
    cases hl : (els.map (elemBlockP T name)).getLast? with
    | none => exact absurd (List.getLast?_eq_none_iff.1 hl) hM
    | some x => simp
  cases hr : rawBlocksP T name els with
  | nil => exact absurd hr hraw_ne
  | cons b2 more =>
    simp only [List.length_singleton, bne_self_eq_false, Bool.false_eq_true, if_false]
    rw [← hr]
    have hst := stealOne_blocks (PLine.star (ν := ν)) (els.map (elemBlockP T name)) hM []
    simp only [List.nil_append] at hst
    have hst' : stealOne [PLine.star (ν := ν)] (rawBlocksP T name els) = [] :: (els.map (elemBlockP T name)).map (fun b => PLine.star :: b) := hst
    rw [hst', List.tail_cons, List.map_map]
    have hstars : firstSome badStarsP (els.map ((fun b => PLine.star :: b) ∘ elemBlockP T name)) = none := by
      have : ∀ b ∈ els.map ((fun b => PLine.star (ν := ν) :: b) ∘ elemBlockP T name), badStarsP b = none := by
        intro b hb
        obtain ⟨e, _, rfl⟩ := List.mem_map.1 hb
        have hnostar : ((writeOrder e.2.2).flatMap (potLinesP T (maxAmOf e.2.2))).any pIsStarLike = false := by
          apply List.any_eq_false.2
          intro x hx
          have := (potLines_plain T _ _ x hx).2
          simp [this]
        simp [badStarsP, elemBlockP, pIsStar, pIsStarLike, hnostar]
      generalize els.map ((fun b => PLine.star (ν := ν) :: b) ∘ elemBlockP T name) = B at this
      induction B with
      | nil => rfl
      | cons b bs ih => simp only [firstSome, this b (by simp)]; exact ih (fun x hx => this x (by simp [hx]))
    rw [hstars]
    simp only
    exact parseEcpElementsP_written T name count els hok [] (by simp) hnd

end BSE.Turbomole
