import BSEModel.RefRender

/-! # Every stored field value of a reference appears in each of its renderings -/

namespace BSE.RefRender

/-- `x` occurs in `s` -/
def Sub (x s : Str) : Prop := ∃ pre post, s = pre ++ x ++ post

theorem Sub.refl (x : Str) : Sub x x := ⟨[], [], by simp⟩
theorem Sub.left {x s : Str} (a : Str) (h : Sub x s) : Sub x (a ++ s) := by
  obtain ⟨p, q, rfl⟩ := h; exact ⟨a ++ p, q, by simp⟩
theorem Sub.right {x s : Str} (b : Str) (h : Sub x s) : Sub x (s ++ b) := by
  obtain ⟨p, q, rfl⟩ := h; exact ⟨p, q ++ b, by simp⟩
theorem Sub.trans {x y s : Str} (h1 : Sub x y) (h2 : Sub y s) : Sub x s := by
  obtain ⟨p, q, rfl⟩ := h1; obtain ⟨p', q', rfl⟩ := h2; exact ⟨p' ++ p, q ++ q', by simp⟩

theorem sub_joinSep (sep : Str) (l : List Str) (x : Str) (hx : x ∈ l) : Sub x (joinSep sep l) := by
  induction l with
  | nil => cases hx
  | cons a as ih =>
    cases as with
    | nil =>
      have : x = a := by simpa using hx
      subst this; exact Sub.refl _
    | cons b bs =>
      rcases List.mem_cons.1 hx with rfl | h
      · exact ⟨[], sep ++ joinSep sep (b :: bs), by simp [joinSep]⟩
      · have := ih h
        simp only [joinSep]
        rw [List.append_assoc]
        exact Sub.left _ (Sub.left _ this)

/-- the strings a value holds -/
def valStrings : Val → List Str
  | .str s => [s]
  | .list l => l

/-- authors and editors are lists, as everywhere in the reference database -/
def WellTyped (kv : Str × Val) : Prop :=
  (kv.1 = "authors".toList ∨ kv.1 = "editors".toList) → ∃ l, kv.2 = .list l

/-- decidable form of `WellTyped` -/
def wellTypedB (kv : Str × Val) : Bool :=
  if kv.1 = "authors".toList ∨ kv.1 = "editors".toList then (match kv.2 with | .list _ => true | .str _ => false) else true

theorem wellTyped_of_B (kv : Str × Val) (h : wellTypedB kv = true) : WellTyped kv := by
  intro hk
  unfold wellTypedB at h
  rw [if_pos hk] at h
  cases hv : kv.2 with
  | list l => exact ⟨l, rfl⟩
  | str s => rw [hv] at h; cases h

theorem sub_listRepr (l : List Str) (x : Str) (hx : x ∈ l) : Sub x (listRepr l) := by
  unfold listRepr
  apply Sub.right
  apply Sub.left
  have : ("'".toList ++ x ++ "'".toList) ∈ l.map (fun x => "'".toList ++ x ++ "'".toList) := List.mem_map.2 ⟨x, hx, rfl⟩
  exact Sub.trans ⟨"'".toList, "'".toList, rfl⟩ (sub_joinSep _ _ _ this)

theorem sub_fmtVal (v : Val) (x : Str) (hx : x ∈ valStrings v) : Sub x (fmtVal v) := by
  cases v with
  | str s =>
    have : x = s := by simpa [valStrings] using hx
    subst this; exact Sub.refl _
  | list l => exact sub_listRepr l x hx

theorem sub_bibLine (kv : Str × Val) (wt : WellTyped kv) (x : Str) (hx : x ∈ valStrings kv.2) : Sub x (bibLine kv) := by
  unfold bibLine
  cases hv : kv.2 with
  | list l =>
    have hxl : x ∈ l := by rw [hv] at hx; exact hx
    simp only
    split
    · exact Sub.right _ (Sub.left _ (sub_joinSep _ l x hxl))
    · split
      · exact Sub.right _ (Sub.left _ (sub_joinSep _ l x hxl))
      · exact Sub.right _ (Sub.left _ (sub_listRepr l x hxl))
  | str s =>
    have hxs : x = s := by rw [hv] at hx; simpa [valStrings] using hx
    subst hxs
    simp only
    split
    · rename_i h; obtain ⟨l, hl⟩ := wt (Or.inl h); rw [hv] at hl; cases hl
    · split
      · rename_i h; obtain ⟨l, hl⟩ := wt (Or.inr h); rw [hv] at hl; cases hl
      · exact Sub.right _ (Sub.left _ (Sub.refl _))

/-- **BibTeX: the key and every stored value of every field occur in the rendering** -/
theorem writeBib_complete (key : Str) (e : Entry) :
    Sub key (writeBib key e)
    ∧ ∀ kv ∈ e.fields, WellTyped kv → ∀ x ∈ valStrings kv.2, Sub x (writeBib key e) := by
  unfold writeBib
  refine ⟨?_, ?_⟩
  · exact Sub.right _ (Sub.right _ (Sub.right _ (Sub.left _ (Sub.refl _))))
  · intro kv hkv wt x hx
    apply Sub.right
    apply Sub.left
    exact Sub.trans (sub_bibLine kv wt x hx) (sub_joinSep _ _ _ (List.mem_map.2 ⟨kv, hkv, rfl⟩))

theorem sub_tagLines (T : Tags) (kv : Str × Val) (wt : WellTyped kv) (x : Str) (hx : x ∈ valStrings kv.2) :
    ∃ ln ∈ tagLines T kv, Sub x ln := by
  unfold tagLines
  split
  · rename_i h
    obtain ⟨l, hl⟩ := wt (Or.inl h)
    rw [hl] at hx ⊢
    exact ⟨T.au ++ x, List.mem_map.2 ⟨x, hx, rfl⟩, Sub.left _ (Sub.refl _)⟩
  · split
    · exact ⟨T.py ++ fmtVal kv.2, by simp, Sub.left _ (sub_fmtVal _ x hx)⟩
    · split
      · exact ⟨T.jo ++ fmtVal kv.2, by simp, Sub.left _ (sub_fmtVal _ x hx)⟩
      · split
        · exact ⟨T.vl ++ fmtVal kv.2, by simp, Sub.left _ (sub_fmtVal _ x hx)⟩
        · split
          · exact ⟨T.sp ++ fmtVal kv.2, by simp, Sub.left _ (sub_fmtVal _ x hx)⟩
          · split
            · exact ⟨T.t1 ++ fmtVal kv.2, by simp, Sub.left _ (sub_fmtVal _ x hx)⟩
            · split
              · exact ⟨T.doi ++ fmtVal kv.2, by simp, Sub.left _ (sub_fmtVal _ x hx)⟩
              · exact ⟨T.other ++ kv.1 ++ ":".toList ++ fmtVal kv.2, by simp, Sub.left _ (sub_fmtVal _ x hx)⟩

/-- **RIS / EndNote: the key and every stored value of every field occur in the rendering** -/
theorem writeTagged_complete (T : Tags) (typeLine : Str → Str) (key : Str) (e : Entry) :
    Sub key (writeTagged T typeLine key e)
    ∧ ∀ kv ∈ e.fields, WellTyped kv → ∀ x ∈ valStrings kv.2, Sub x (writeTagged T typeLine key e) := by
  unfold writeTagged
  refine ⟨?_, ?_⟩
  · exact Sub.right _ (Sub.right _ (Sub.right _ (Sub.right _ (Sub.left _ (Sub.refl _)))))
  · intro kv hkv wt x hx
    obtain ⟨ln, hln, hsub⟩ := sub_tagLines T kv wt x hx
    apply Sub.right
    apply Sub.left
    exact Sub.trans hsub (sub_joinSep _ _ _ (List.mem_flatMap.2 ⟨kv, hkv, hln⟩))

end BSE.RefRender
