import BSEModel.G94Ecp
import BSEProofs.Lemmas.NwchemEcp

/-! # Gaussian94 ECP block: what reading gives back for what was written -/

namespace BSE.G94
open BSE
open BSE.Nwchem (Str RErr EPot RPot writeOrder mapR mapR_map readPot)
variable {ν : Type}

/-! ## blocks -/

theorem splitBlocks_others (rs : List (List ν)) (rest : List (ELine ν)) :
    splitBlocks (rs.map ELine.other ++ rest) = (rs.map ELine.other ++ (splitBlocks rest).1, (splitBlocks rest).2) := by
  induction rs with
  | nil => simp
  | cons r rs ih => simp [splitBlocks, ih]

def rowsOfPot (p : EPot ν) : List (List ν) := p.terms.map fun t => [t.1, t.2.1, t.2.2]

/-- the title line of the next potential, if there is one -/
def nextTitle (T : ETables ν) (maxAm : Nat) : List (EPot ν) → List (ELine ν)
  | [] => []
  | q :: _ => [.other (T.title q.am maxAm)]

/-- the lines of the potentials after the first title: count₁ rows₁ title₂ count₂ rows₂ … -/
def afterTitle (T : ETables ν) (maxAm : Nat) : List (EPot ν) → List (ELine ν)
  | [] => []
  | p :: ps => .count (T.natTok p.terms.length) :: ((rowsOfPot p).map ELine.other ++ (nextTitle T maxAm ps ++ afterTitle T maxAm ps))

theorem flatMap_potLines (T : ETables ν) (maxAm : Nat) (p : EPot ν) (ps : List (EPot ν)) :
    (p :: ps).flatMap (potLinesE T maxAm) = .other (T.title p.am maxAm) :: afterTitle T maxAm (p :: ps) := by
  induction ps generalizing p with
  | nil => simp [potLinesE, afterTitle, rowsOfPot, nextTitle]
  | cons q qs ih =>
    have := ih q
    simp only [List.flatMap_cons] at this ⊢
    rw [this]
    simp [potLinesE, afterTitle, rowsOfPot, nextTitle]

/-- the raw blocks (before stealing): each starts with its count line and ends with the next title -/
def rawBlocks (T : ETables ν) (maxAm : Nat) : List (EPot ν) → List (List (ELine ν))
  | [] => []
  | p :: ps => (.count (T.natTok p.terms.length) :: ((rowsOfPot p).map ELine.other ++ nextTitle T maxAm ps)) :: rawBlocks T maxAm ps

theorem splitBlocks_afterTitle (T : ETables ν) (maxAm : Nat) (ps : List (EPot ν)) :
    splitBlocks (afterTitle T maxAm ps) = ([], rawBlocks T maxAm ps) := by
  induction ps with
  | nil => rfl
  | cons p ps ih =>
    simp only [afterTitle, rawBlocks, splitBlocks]
    rw [splitBlocks_others]
    cases ps with
    | nil => simp [nextTitle, afterTitle, rawBlocks, splitBlocks]
    | cons q qs =>
      simp only [nextTitle, List.cons_append, List.nil_append, splitBlocks, ih]

/-- the blocks after stealing: `[title, count, rows…]` per potential -/
def potBlock (T : ETables ν) (maxAm : Nat) (p : EPot ν) : List (ELine ν) :=
  .other (T.title p.am maxAm) :: .count (T.natTok p.terms.length) :: (rowsOfPot p).map ELine.other

theorem steal_raw (T : ETables ν) (maxAm : Nat) (p : EPot ν) (ps : List (EPot ν)) (pre : List (ELine ν)) :
    steal (pre ++ [.other (T.title p.am maxAm)]) (rawBlocks T maxAm (p :: ps))
      = pre :: (p :: ps).map (potBlock T maxAm) := by
  induction ps generalizing p pre with
  | nil =>
    simp [rawBlocks, steal, potBlock, nextTitle]
  | cons q qs ih =>
    have h := ih q (potBlock T maxAm p)
    have hr : rawBlocks T maxAm (p :: q :: qs)
        = (.count (T.natTok p.terms.length) :: ((rowsOfPot p).map ELine.other ++ [.other (T.title q.am maxAm)]))
            :: rawBlocks T maxAm (q :: qs) := rfl
    rw [hr]
    show (pre ++ [ELine.other (T.title p.am maxAm)]).dropLast
        :: steal ((pre ++ [ELine.other (T.title p.am maxAm)]).getLast?.toList
            ++ (.count (T.natTok p.terms.length) :: ((rowsOfPot p).map ELine.other ++ [.other (T.title q.am maxAm)])))
          (rawBlocks T maxAm (q :: qs)) = _
    have e : (pre ++ [ELine.other (T.title p.am maxAm)]).getLast?.toList
        ++ (.count (T.natTok p.terms.length) :: ((rowsOfPot p).map ELine.other ++ [.other (T.title q.am maxAm)]))
        = potBlock T maxAm p ++ [.other (T.title q.am maxAm)] := by
      simp [potBlock]
    rw [e, h]
    simp

/-! ## one potential, and the block -/

structure PotOKE (T : ETables ν) (p : EPot ν) : Prop where
  terms_ne : p.terms ≠ []
  typed : ∀ t ∈ p.terms, T.isInt t.1 = true ∧ T.isNum t.2.1 = true ∧ T.isNum t.2.2 = true
  count_rt : T.intOfTok (T.natTok p.terms.length) = some (p.terms.length : Int)

def colsOf (p : EPot ν) : List ν × List ν × List ν := (p.terms.map (·.1), p.terms.map (·.2.1), p.terms.map (·.2.2))

theorem parsePotE_block (T : ETables ν) (maxAm : Nat) (p : EPot ν) (ok : PotOKE T p) :
    parsePotE T (potBlock T maxAm p) = .ok (colsOf p) := by
  have hlen : 0 < p.terms.length := List.length_pos_iff.2 ok.terms_ne
  unfold parsePotE potBlock
  simp only [ok.count_rt]
  have h1 : ¬ ((p.terms.length : Int) ≤ 0) := by omega
  have h2 : ¬ ((((rowsOfPot p).map ELine.other).length : Int) ≠ (p.terms.length : Int)) := by
    simp [rowsOfPot]
  rw [if_neg h1, if_neg h2]
  unfold parseTableE
  have hrows : ((rowsOfPot p).map ELine.other).map lineToks = rowsOfPot p := by
    rw [List.map_map]
    apply List.map_id''
    intro r; rfl
  simp only [hrows]
  have h3 : (rowsOfPot p).any (fun r => r.length != 3) = false := by
    apply List.any_eq_false.2
    intro r hr
    obtain ⟨t, _, rfl⟩ := List.mem_map.1 hr
    simp
  have hr : (rowsOfPot p).filterMap (·[0]?) = p.terms.map (·.1) := by
    unfold rowsOfPot; rw [List.filterMap_map]; simp [Function.comp_def, List.filterMap_eq_map]
  have hg : (rowsOfPot p).filterMap (·[1]?) = p.terms.map (·.2.1) := by
    unfold rowsOfPot; rw [List.filterMap_map]; simp [Function.comp_def, List.filterMap_eq_map]
  have hc : (rowsOfPot p).filterMap (·[2]?) = p.terms.map (·.2.2) := by
    unfold rowsOfPot; rw [List.filterMap_map]; simp [Function.comp_def, List.filterMap_eq_map]
  have a1 : (p.terms.map (·.1)).all T.isInt = true := by
    apply List.all_eq_true.2; intro x hx; obtain ⟨t, ht, rfl⟩ := List.mem_map.1 hx; exact (ok.typed t ht).1
  have a2 : (p.terms.map (·.2.1)).all T.isNum = true := by
    apply List.all_eq_true.2; intro x hx; obtain ⟨t, ht, rfl⟩ := List.mem_map.1 hx; exact (ok.typed t ht).2.1
  have a3 : (p.terms.map (·.2.2)).all T.isNum = true := by
    apply List.all_eq_true.2; intro x hx; obtain ⟨t, ht, rfl⟩ := List.mem_map.1 hx; exact (ok.typed t ht).2.2
  simp only [h3, Bool.false_eq_true, if_false, hr, hg, hc, a1, a2, a3, Bool.not_true, colsOf]

structure BlockOK (T : ETables ν) (z : Nat) (nelec : ν) (pots : List (EPot ν)) : Prop where
  sym : T.zOfTok (T.symTok z) = some z
  lmax : T.natOfTok (T.natTok ((pots.map (·.am)).foldl max 0)) = some ((pots.map (·.am)).foldl max 0)
  nelec : (T.natOfTok nelec).isSome = true
  pots : ∀ p ∈ writeOrder pots, PotOKE T p

/-- the potentials as the reader numbers them: by position, `[L, 0, 1, …]` -/
def numbered (L : Nat) (ws : List (EPot ν)) : List (RPot ν) :=
  ((potentialAmList L).zip (ws.map colsOf)).map fun at' =>
    { am := some [at'.1], rexp := at'.2.1, gexp := at'.2.2.1, coef := at'.2.2.2 }

/-- **Gaussian94 ECP block: what reading gives back for what was written.**  With `ws` the potentials in write order and
`L` the highest momentum: if there are exactly `L + 1` of them the block is read, and the momenta are assigned by position
(`numbered`); otherwise the reader refuses its own text. -/
theorem parseEcpBlock_write (T : ETables ν) (z : Nat) (nelec : ν) (pots : List (EPot ν)) (ok : BlockOK T z nelec pots)
    (hne : writeOrder pots ≠ []) :
    parseEcpBlock T (ecpBlock T z nelec pots)
      = if (writeOrder pots).length = (pots.map (·.am)).foldl max 0 + 1
        then .ok (z, nelec, numbered ((pots.map (·.am)).foldl max 0) (writeOrder pots))
        else .error .runtime := by
  obtain ⟨n0, hn0⟩ := Option.isSome_iff_exists.1 ok.nelec
  cases hw : writeOrder pots with
  | nil => exact absurd hw hne
  | cons top rest =>
    unfold parseEcpBlock ecpBlock
    simp only [hw, ok.sym, ok.lmax, hn0]
    rw [flatMap_potLines]
    simp only [splitBlocks, splitBlocks_afterTitle, List.isEmpty_cons, Bool.false_eq_true, if_false]
    have hraw : rawBlocks T ((pots.map (·.am)).foldl max 0) (top :: rest)
        = (.count (T.natTok top.terms.length) :: ((rowsOfPot top).map ELine.other ++ nextTitle T _ rest)) :: rawBlocks T _ rest := rfl
    rw [hraw]
    simp only [List.length_singleton, bne_self_eq_false, Bool.false_eq_true, if_false]
    rw [← hraw]
    have hst := steal_raw T ((pots.map (·.am)).foldl max 0) top rest []
    simp only [List.nil_append] at hst
    rw [hst, List.tail_cons]
    rw [mapR_map (parsePotE T) (potBlock T _) colsOf (top :: rest)
      (fun p hp => parsePotE_block T _ p (ok.pots p (by rw [hw]; exact hp)))]
    simp only [potentialAmList, List.length_cons, List.length_range, List.length_map]
    by_cases hlen : rest.length + 1 = (pots.map (·.am)).foldl max 0 + 1
    · have h1 : ((pots.map (·.am)).foldl max 0 + 1 != rest.length + 1) = false := by simp; omega
      simp [hlen, numbered, potentialAmList]
    · have h1 : ((pots.map (·.am)).foldl max 0 + 1 != rest.length + 1) = true := by simp; omega
      simp only [h1, if_true, hlen, if_false]

/-- the numbering is the potentials' own exactly when the momenta in write order are `L, 0, 1, …, L-1` -/
theorem numbered_faithful (L : Nat) (top : EPot ν) (rest : List (EPot ν)) (htop : top.am = L)
    (hrest : rest.map (·.am) = List.range L) :
    numbered L (top :: rest) = (top :: rest).map readPot := by
  unfold numbered potentialAmList
  simp only [List.map_cons, List.zip_cons_cons, colsOf, readPot, htop]
  congr 1
  rw [← hrest]
  clear hrest
  induction rest with
  | nil => rfl
  | cons r rs ih =>
    simp only [List.map_cons, List.zip_cons_cons, readPot]
    congr 1

end BSE.G94
