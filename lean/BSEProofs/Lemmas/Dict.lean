import BSEModel.Json
/-! Lemmas about insertion-ordered dictionaries -/
namespace BSE.Dict

theorem get?_set_same (d : Dict) (k : String) (v : J) : get? (set d k v) k = some v := by
  induction d with
  | nil => simp [set, get?]
  | cons x xs ih =>
    obtain ⟨k0, v0⟩ := x
    unfold set
    by_cases h : (k0 == k) = true
    · simp [h, get?]
    · simp only [h, Bool.false_eq_true, if_false]
      simp only [get?, List.find?_cons, h] at ih ⊢
      exact ih

theorem get?_set_other (d : Dict) (k k' : String) (v : J) (hne : k ≠ k') : get? (set d k v) k' = get? d k' := by
  induction d with
  | nil =>
    have : (k == k') = false := by simpa using hne
    simp [set, get?, this]
  | cons x xs ih =>
    obtain ⟨k0, v0⟩ := x
    unfold set
    by_cases h : (k0 == k) = true
    · have hk : k0 = k := by simpa using h
      subst hk
      have : (k0 == k') = false := by simpa using hne
      simp [h, get?, this]
    · simp only [h, Bool.false_eq_true, if_false]
      by_cases h' : (k0 == k') = true
      · simp [get?, h']
      · simp only [get?, List.find?_cons, h'] at ih ⊢
        exact ih

theorem has_iff_get? (d : Dict) (k : String) : has d k = true ↔ (get? d k).isSome = true := by
  induction d with
  | nil => simp [has, get?]
  | cons x xs ih =>
    obtain ⟨k0, v0⟩ := x
    by_cases h : (k0 == k) = true
    · simp [has, get?, h]
    · simp only [has, get?, List.any_cons, h, Bool.false_or, List.find?_cons] at ih ⊢
      exact ih

theorem keys_set_of_has (d : Dict) (k : String) (v : J) (h : has d k = true) : keys (set d k v) = keys d := by
  induction d with
  | nil => simp [has] at h
  | cons x xs ih =>
    obtain ⟨k0, v0⟩ := x
    unfold set
    by_cases hk : (k0 == k) = true
    · simp [hk, keys]
    · simp only [hk, Bool.false_eq_true, if_false, keys, List.map_cons]
      have : has xs k = true := by simpa [has, hk] using h
      have := ih this
      simp only [keys] at this
      rw [this]

theorem keys_set_of_not_has (d : Dict) (k : String) (v : J) (h : has d k = false) : keys (set d k v) = keys d ++ [k] := by
  induction d with
  | nil => simp [set, keys]
  | cons x xs ih =>
    obtain ⟨k0, v0⟩ := x
    unfold set
    have hk : (k0 == k) = false := by
      simp only [has, List.any_cons, Bool.or_eq_false_iff] at h; exact h.1
    have hx : has xs k = false := by
      simp only [has, List.any_cons, Bool.or_eq_false_iff] at h; exact h.2
    simp only [hk, Bool.false_eq_true, if_false, keys, List.map_cons, List.cons_append]
    have := ih hx
    simp only [keys] at this
    rw [this]

end BSE.Dict
