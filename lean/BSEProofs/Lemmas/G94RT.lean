import BSEModel.G94
import BSEProofs.Lemmas.NwchemRT

/-! # Gaussian94 electron block: reading what was written gives the shells back -/

namespace BSE.G94
open BSE
open BSE.Nwchem (Str RErr RShell EShell Tables lower isAlphaStr ShellOK toR rows_of_shell)
variable {ν : Type}

theorem blocksG_rows (rs : List (List ν)) (rest : List (GLine ν)) :
    blocksG (rs.map GLine.row ++ rest) = (rs.map some ++ (blocksG rest).1, (blocksG rest).2) := by
  induction rs with
  | nil => simp
  | cons r rs ih => simp [blocksG, ih]

theorem blocksG_shells (T : GTables ν) (shells : List (EShell ν)) (rest : List (GLine ν)) (h : (blocksG rest).1 = []) :
    blocksG (shells.flatMap (shellLines T) ++ rest)
      = ([], shells.map (fun sh => ([T.amStr sh.am, T.natStr sh.exps.length, "1.00".toList],
            (zipStar (sh.exps :: sh.coefs)).map some)) ++ (blocksG rest).2) := by
  induction shells with
  | nil =>
    simp only [List.flatMap_nil, List.nil_append, List.map_nil]
    rw [← h]
  | cons sh shs ih =>
    simp only [List.flatMap_cons, List.map_cons, List.append_assoc, shellLines, List.cons_append, blocksG, blocksG_rows, ih,
      List.append_nil]

theorem allSome_map_some {α : Type} (l : List α) : allSome (l.map some) = some l := by
  induction l with
  | nil => rfl
  | cons a as ih => simp [allSome, ih]

/-- what the shell must satisfy on top of `ShellOK`: Gaussian holds no general contractions, and the counts print and
parse back -/
structure GShellOK (T : GTables ν) (sh : EShell ν) : Prop where
  base : ShellOK T.toTables sh
  ncols : sh.coefs.length = sh.am.length
  count_rt : T.natOf (T.natStr sh.exps.length) = some sh.exps.length
  am_alpha : isAlphaStr (T.amStr sh.am) = true

/-- the constant scaling factor the writer prints is a float, not zero, and its square is one -/
structure ScaleOK (T : GTables ν) : Prop where
  isFloat : T.isFloatStr "1.00".toList = true
  nonzero : T.isZeroF "1.00".toList = false
  unit : T.isUnitF "1.00".toList = true

theorem parseMatrix_none (T : Tables ν) (sh : EShell ν) (ok : ShellOK T sh) :
    Nwchem.parseMatrix T (zipStar (sh.exps :: sh.coefs)) none = .ok (sh.exps, sh.coefs) := by
  obtain ⟨hhead, htail, hlen, hn⟩ := rows_of_shell sh.exps sh.coefs ok.coefs_ne ok.rect ok.exps_ne
  have hrect : Rect sh.exps.length (sh.exps :: sh.coefs) := by
    intro c hc
    rcases List.mem_cons.1 hc with rfl | h
    · rfl
    · exact ok.rect c h
  have hnum : ∀ r ∈ zipStar (sh.exps :: sh.coefs), ∀ x ∈ r, T.isNum x = true := by
    intro r hr x hx
    rw [zipStar_closed (m := sh.exps :: sh.coefs) (by simp) hrect] at hr
    obtain ⟨i, _, rfl⟩ := List.mem_map.1 hr
    obtain ⟨c, hc, hcx⟩ := List.mem_filterMap.1 hx
    have hxc : x ∈ c := List.mem_of_getElem? hcx
    rcases List.mem_cons.1 hc with rfl | hc'
    · exact ok.nums.1 x hxc
    · exact ok.nums.2 c hc' x hxc
  have hcoefpos : 0 < sh.coefs.length := List.length_pos_iff.2 ok.coefs_ne
  unfold Nwchem.parseMatrix
  have h1 : (zipStar (sh.exps :: sh.coefs)).any (Nwchem.badRow T) = false := by
    apply List.any_eq_false.2
    intro r hr
    have hl := hlen r hr
    cases r with
    | nil => simp at hl
    | cons e c =>
      have he := hnum _ hr e (by simp)
      have hc : c.all T.isNum = true := List.all_eq_true.2 (fun x hx => hnum _ hr x (by simp [hx]))
      simp [Nwchem.badRow, he, hc]
  rw [h1]
  simp only [Bool.false_eq_true, if_false]
  have hrows_ne : zipStar (sh.exps :: sh.coefs) ≠ [] := by
    intro h0; rw [h0] at hn; simp at hn; have := ok.exps_ne; omega
  have h2 : ((zipStar (sh.exps :: sh.coefs)).map List.tail).any
      (fun c => c.isEmpty || c.length != (((zipStar (sh.exps :: sh.coefs)).map List.tail).headD []).length) = false := by
    have hall : ∀ c ∈ (zipStar (sh.exps :: sh.coefs)).map List.tail, c.length = sh.coefs.length := by
      intro c hc
      obtain ⟨r, hr, rfl⟩ := List.mem_map.1 hc
      have := hlen r hr
      simp [this]
    apply List.any_eq_false.2
    intro c hc
    have hcl := hall c hc
    have hhd : (((zipStar (sh.exps :: sh.coefs)).map List.tail).headD []).length = sh.coefs.length := by
      cases hz : zipStar (sh.exps :: sh.coefs) with
      | nil => exact absurd hz hrows_ne
      | cons r rs =>
        simp only [List.map_cons, List.headD_cons]
        exact hall _ (by rw [hz]; simp)
    have hcne : c ≠ [] := by intro h0; rw [h0] at hcl; simp at hcl; omega
    have hce : c.isEmpty = false := by cases c <;> simp at hcne ⊢
    rw [hce, hcl, hhd]
    simp
  rw [h2]
  simp only [Bool.false_eq_true, if_false, htail]
  have h3 : ((zipStar (sh.exps :: sh.coefs)).isEmpty || sh.coefs.isEmpty) = false := by
    simp [hrows_ne, ok.coefs_ne]
  rw [h3]
  simp only [Bool.false_eq_true, if_false, hhead]

theorem parseShell_written (T : GTables ν) (sc : ScaleOK T) (sh : EShell ν) (ok : GShellOK T sh) :
    parseShell T ([T.amStr sh.am, T.natStr sh.exps.length, "1.00".toList], (zipStar (sh.exps :: sh.coefs)).map some)
      = .ok (toR T.toTables true sh) := by
  unfold parseShell amOfHead parseMatrixN
  simp only [ok.count_rt, List.all_cons, List.all_nil, sc.isFloat, Bool.and_self, Bool.not_true, Bool.false_eq_true, if_false,
    ok.am_alpha, if_true, ok.base.am_rt.1, List.filter_cons, sc.nonzero, Bool.not_false, List.filter_nil, sc.unit,
    allSome_map_some, parseMatrix_none T.toTables sh ok.base, bne_self_eq_false, ok.ncols, toR]

theorem mapG_map {α β γ : Type} (f : β → Except GErr γ) (g : α → β) (h : α → γ) (l : List α)
    (hf : ∀ x ∈ l, f (g x) = .ok (h x)) : mapG f (l.map g) = .ok (l.map h) := by
  induction l with
  | nil => rfl
  | cons a as ih =>
    simp only [List.map_cons, mapG, hf a (by simp), ih (fun x hx => hf x (by simp [hx]))]

/-- **Gaussian94 electron block: read(write(shells)) = shells** — every shell in order, momenta, exponents and
coefficient columns token for token, function type recomputed (always the spherical variant, as the reader decides) -/
theorem parseElectron_write (T : GTables ν) (sc : ScaleOK T) (z : Nat) (shells : List (EShell ν))
    (hz : T.zOf (T.symOf z) = some z) (hok : ∀ sh ∈ shells, GShellOK T sh) :
    parseElectron T (electronBlock T z shells) = .ok (z, shells.map (toR T.toTables true)) := by
  unfold parseElectron electronBlock
  have hrev : ((GLine.head [T.symOf z, "0".toList] :: shells.flatMap (shellLines T)) ++ [GLine.stars]).reverse
      = GLine.stars :: (GLine.head [T.symOf z, "0".toList] :: shells.flatMap (shellLines T)).reverse := by
    simp
  rw [hrev]
  simp only [List.reverse_reverse, hz]
  have hb := blocksG_shells T shells [] rfl
  simp only [List.append_nil, blocksG] at hb
  rw [hb]
  simp only [List.isEmpty_nil, Bool.not_true, Bool.false_eq_true, if_false]
  rw [mapG_map (parseShell T) _ (toR T.toTables true) shells
    (fun sh hsh => parseShell_written T sc sh (hok sh hsh))]

end BSE.G94
