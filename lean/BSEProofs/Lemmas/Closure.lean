import BSEProofs.Props.C18
import BSEProofs.Lemmas.PruneValid
import BSEProofs.Lemmas.Shapes
/-! C08: the final `prune_basis` of `get_basis` turns any *prepared* shell list into a valid element; the shell lists
`make_general` builds from valid shells are prepared. -/
namespace BSE
open BSE.Props.C18
variable {ν : Type}

/-- what `prune_shell` needs in order to hand out a valid shell: non-zero rectangular columns, the right
spherical/cartesian tag, positive exponents, one column per member if fused -/
structure Prepared (val : ν → Rat) (sh : Shell ν) : Prop where
  wf : SemWF val sh
  tagH : sh.am.foldl max 0 > 1 → (sh.ftype = "gto_spherical" ∨ sh.ftype = "gto_cartesian")
  tagL : ¬ sh.am.foldl max 0 > 1 → ¬ (strInfix "spherical" sh.ftype = true ∨ strInfix "cartesian" sh.ftype = true)
  pos : ∀ e ∈ sh.exps, val e > 0
  fused : sh.am.length > 1 → sh.coefs.length = sh.am.length

/-- a valid shell with a contraction is prepared -/
theorem prepared_of_valid (val : ν → Rat) (sh : Shell ν) (v : ValidShell val sh) (hne : sh.coefs ≠ []) : Prepared val sh :=
  ⟨validShell_semWF val sh v hne, v.tag_high, v.tag_low,
    fun e he => v.positive (val e) (List.mem_map.2 ⟨e, he, rfl⟩), v.fused⟩

/-- **the final prune establishes validity**: if every shell handed to `prune_basis` is prepared, the element it returns
passes the validator — every rule, no shell twice; "no duplicate contraction" is the one rule it cannot create -/
theorem pruneShells_valid [DecidableEq ν] (val : ν → Rat) (shells out : List (Shell ν))
    (hp : ∀ sh ∈ shells, Prepared val sh) (h : pruneShells val shells = .ok out)
    (hdup : ∀ s ∈ out, s.am.length = 1 → (s.coefs.map (·.map val)).Nodup) :
    validateElement val (some out) none false = none := by
  rw [validateElement_iff]
  refine ⟨?_, by simp⟩
  intro ss hss
  cases hss
  have hnodup : out.Nodup := by
    unfold pruneShells at h
    cases hm : mapE (pruneShell val) shells with
    | error e => simp [hm] at h
    | ok ss =>
      simp only [hm] at h
      cases h
      obtain ⟨t, ht, _⟩ := dedup_sublist [] ss
      -- first occurrences: no repetition
      have : ∀ (acc l : List (Shell ν)), acc.Nodup → (dedup acc l).Nodup := by
        intro acc l
        induction l generalizing acc with
        | nil => intro h; simpa [dedup] using h
        | cons a as ih =>
          intro hacc
          unfold dedup
          split
          · exact ih acc hacc
          · rename_i hnot
            apply ih
            rw [List.nodup_append]
            exact ⟨hacc, by simp, by intro x hx y hy; simp at hy; subst hy; intro hxy; exact hnot (hxy ▸ hx)⟩
      exact this [] ss (by simp)
  refine ⟨?_, hnodup⟩
  intro s' hs'
  obtain ⟨s, hs, hpr⟩ := mem_pruneShells val shells out h s' hs'
  have p := hp s hs
  exact pruneShell_valid val s s' p.wf p.tagH p.tagL p.pos p.fused hpr (hdup s' hs')

theorem le_foldl_max (l : List Nat) (init a : Nat) (ha : a ∈ l) : a ≤ l.foldl max init := by
  induction l generalizing init with
  | nil => cases ha
  | cons x xs ih =>
    simp only [List.foldl_cons]
    rcases List.mem_cons.1 ha with rfl | h
    · have : ∀ (l : List Nat) (i : Nat), i ≤ l.foldl max i := by
        intro l
        induction l with
        | nil => intro i; exact Nat.le_refl _
        | cons y ys ih2 => intro i; exact Nat.le_trans (Nat.le_max_left i y) (ih2 _)
      exact Nat.le_trans (Nat.le_max_right init a) (this xs _)
    · exact ih _ h

/-- the merged shell of a group of prepared shells of one momentum is prepared -/
theorem prepared_mergeGroup (val : ν → Rat) (zero : ν) (hz : val zero = 0) (a : Nat) (group : List (Shell ν))
    (hne : group ≠ []) (hv : ∀ sh ∈ group, Prepared val sh ∧ sh.am = [a]) :
    Prepared val (mergeGroup zero [a] group) := by
  have hw : ∀ sh ∈ group, SemWF val sh := fun sh hsh => (hv sh hsh).1.wf
  obtain ⟨g, r, rfl⟩ : ∃ g r, group = g :: r := by
    cases group with
    | nil => exact absurd rfl hne
    | cons g r => exact ⟨g, r, rfl⟩
  have hg := hv g (by simp)
  have hft : (mergeGroup zero [a] (g :: r)).ftype = g.ftype := by simp [mergeGroup]
  have ham : (mergeGroup zero [a] (g :: r)).am = [a] := rfl
  refine ⟨semWF_mergeGroup val zero hz a _ hne hw, ?_, ?_, ?_, ?_⟩
  · intro h
    rw [hft]
    rw [ham] at h
    exact hg.1.tagH (by rw [hg.2]; exact h)
  · intro h
    rw [hft]
    rw [ham] at h
    exact hg.1.tagL (by rw [hg.2]; exact h)
  · intro e he
    simp only [mergeGroup, List.mem_flatMap] at he
    obtain ⟨sh, hsh, hes⟩ := he
    exact (hv sh hsh).1.pos e hes
  · intro h
    rw [ham] at h
    simp at h

/-- every shell of the merge step of `make_general` on prepared shells is prepared -/
theorem prepared_makeGeneralCore [DecidableEq ν] (val : ν → Rat) (zero : ν) (hz : val zero = 0) (shells : List (Shell ν))
    (hv : ∀ sh ∈ shells, Prepared val sh) :
    ∀ s ∈ makeGeneralCore zero sortAm shells, Prepared val s := by
  intro s hs
  unfold makeGeneralCore at hs
  simp only [List.mem_append, List.mem_filter, List.mem_map] at hs
  rcases hs with ⟨hsh, _⟩ | ⟨am, hamIn, rfl⟩
  · exact hv s hsh
  · rw [mem_sortAm, mem_dedupKeys] at hamIn
    simp only [List.mem_map, List.mem_filter] at hamIn
    obtain ⟨s0, ⟨hs0, h10⟩, rfl⟩ := hamIn
    have h1 : ¬ s0.am.length > 1 := by simpa using h10
    obtain ⟨a, ha⟩ : ∃ a, s0.am = [a] := by
      cases hsa : s0.am with
      | nil => exact absurd hsa (hv s0 hs0).wf.am_ne
      | cons a as =>
        cases as with
        | nil => exact ⟨a, rfl⟩
        | cons b bs => simp [hsa] at h1
    rw [ha]
    apply prepared_mergeGroup val zero hz a
    · intro hnil
      have : s0 ∈ shells.filter (fun sh => sh.am = [a]) := List.mem_filter.2 ⟨hs0, by simpa using ha⟩
      rw [hnil] at this; cases this
    · intro sh hsh
      have hm := List.mem_filter.1 hsh
      exact ⟨hv sh hm.1, by simpa using hm.2⟩

/-- **`make_general` (fused shells left alone) of a valid element is a valid element** — provided the merged shell of a
momentum does not get the same contraction twice, which is what "no contracted function occurs twice in the element" means -/
theorem makeGeneral_valid [DecidableEq ν] (val : ν → Rat) (zero : ν) (hz : val zero = 0) (shells out : List (Shell ν))
    (hv : ∀ sh ∈ shells, ValidShell val sh ∧ sh.coefs ≠ [])
    (h : makeGeneral val zero true shells = .ok out)
    (hdup : ∀ s ∈ out, s.am.length = 1 → (s.coefs.map (·.map val)).Nodup) :
    validateElement val (some out) none false = none := by
  unfold makeGeneral at h
  simp only [if_true] at h
  split at h
  · cases h
  · exact pruneShells_valid val _ out (prepared_makeGeneralCore val zero hz shells
      (fun sh hsh => prepared_of_valid val sh (hv sh hsh).1 (hv sh hsh).2)) h hdup

/-! ### splitting fused shells -/

/-- the function types the schema allows for an electron shell -/
def knownTypes : List String := ["gto", "gto_spherical", "gto_cartesian", "sto"]

theorem baseType_untagged : ∀ ft ∈ knownTypes,
    ¬ (strInfix "spherical" (baseType ft) = true ∨ strInfix "cartesian" (baseType ft) = true) := by decide +kernel

theorem exists_gt_of_foldl_max (l : List Nat) (init n : Nat) (h : l.foldl max init > n) : init > n ∨ ∃ a ∈ l, a > n := by
  induction l generalizing init with
  | nil => exact Or.inl h
  | cons x xs ih =>
    simp only [List.foldl_cons] at h
    rcases ih _ h with h1 | ⟨a, ha, hgt⟩
    · by_cases hx : x > n
      · exact Or.inr ⟨x, by simp, hx⟩
      · left; omega
    · exact Or.inr ⟨a, by simp [ha], hgt⟩

/-- the parts `uncontract_spdf` makes of a valid fused shell are prepared (the remainder: if it keeps a member) -/
theorem prepared_splitFused (val : ν → Rat) (k : Nat) (sh : Shell ν) (v : ValidShell val sh) (hf : sh.am.length > 1)
    (hk : sh.ftype ∈ knownTypes) :
    (∀ s ∈ (splitFused k sh).1, Prepared val s) ∧
    ((splitFused k sh).2.am ≠ [] → Prepared val (splitFused k sh).2) := by
  have hcne : sh.coefs ≠ [] := by
    intro h0
    have := v.fused hf
    rw [h0] at this
    simp at this
    omega
  have hw := validShell_semWF val sh v hcne
  have hpos : ∀ e ∈ sh.exps, val e > 0 := fun e he => v.positive (val e) (List.mem_map.2 ⟨e, he, rfl⟩)
  have hmem : ∀ p ∈ sh.am.zip sh.coefs, p.1 ∈ sh.am ∧ p.2 ∈ sh.coefs := fun p hp => ⟨(List.of_mem_zip hp).1, (List.of_mem_zip hp).2⟩
  refine ⟨?_, ?_⟩
  · intro s hs
    simp only [splitFused, List.mem_map, List.mem_filter] at hs
    obtain ⟨p, ⟨hp, _⟩, rfl⟩ := hs
    obtain ⟨ha, hc⟩ := hmem p hp
    refine ⟨⟨by simp, ?_, by simp, ?_⟩, ?_, ?_, hpos, by simp⟩
    · intro c hc'; simp at hc'; subst hc'; exact hw.rect p.2 hc
    · intro c hc'; simp at hc'; subst hc'; exact hw.live p.2 hc
    · intro h
      simp only [List.foldl_cons, List.foldl_nil] at h
      have hp1 : p.1 > 1 := by omega
      have : ¬ ([p.1] ≠ [] ∧ [p.1].foldl max 0 < 2) := by simp; omega
      simp only [lowType, this, if_false]
      exact v.tag_high (Nat.lt_of_lt_of_le hp1 (le_foldl_max sh.am 0 p.1 ha))
    · intro h
      simp only [List.foldl_cons, List.foldl_nil] at h
      have : ([p.1] ≠ [] ∧ [p.1].foldl max 0 < 2) := by simp; omega
      simp only [lowType, this, if_true]
      exact baseType_untagged _ hk
  · intro hne
    simp only [splitFused] at hne ⊢
    generalize hlo : (sh.am.zip sh.coefs).filter (fun p => ¬ p.1 > k) = lo at hne ⊢
    have hlomem : ∀ p ∈ lo, p.1 ∈ sh.am ∧ p.2 ∈ sh.coefs := by
      intro p hp
      rw [← hlo] at hp
      exact hmem p (List.mem_filter.1 hp).1
    have hlone : lo ≠ [] := by intro h0; rw [h0] at hne; exact hne rfl
    refine ⟨⟨hne, ?_, by simpa using hlone, ?_⟩, ?_, ?_, hpos, by simp⟩
    · intro c hc'
      simp only [List.mem_map] at hc'
      obtain ⟨p, hp, rfl⟩ := hc'
      exact hw.rect p.2 (hlomem p hp).2
    · intro c hc'
      simp only [List.mem_map] at hc'
      obtain ⟨p, hp, rfl⟩ := hc'
      exact hw.live p.2 (hlomem p hp).2
    · intro h
      have h : (lo.map (·.1)).foldl max 0 > 1 := h
      have hnot : ¬ (lo.map (·.1) ≠ [] ∧ (lo.map (·.1)).foldl max 0 < 2) := by
        intro hh; omega
      simp only [lowType, hnot, if_false]
      rcases exists_gt_of_foldl_max _ 0 1 h with h0 | ⟨a, ha, hgt⟩
      · omega
      · obtain ⟨p, hp, rfl⟩ := List.mem_map.1 ha
        exact v.tag_high (Nat.lt_of_lt_of_le hgt (le_foldl_max sh.am 0 p.1 (hlomem p hp).1))
    · intro h
      have h : ¬ (lo.map (·.1)).foldl max 0 > 1 := h
      have hyes : (lo.map (·.1) ≠ [] ∧ (lo.map (·.1)).foldl max 0 < 2) := ⟨hne, by omega⟩
      show ¬ (strInfix "spherical" (lowType (lo.map (·.1)) sh.ftype) = true ∨ strInfix "cartesian" (lowType (lo.map (·.1)) sh.ftype) = true)
      rw [show lowType (lo.map (·.1)) sh.ftype = baseType sh.ftype from if_pos hyes]
      exact baseType_untagged _ hk

/-- **`uncontract_spdf` followed by the prune `get_basis` runs is valid on a valid element** whose fused shells keep a
member at or below `max_am` (true of every sp / spd shell) -/
theorem uncontractSpdf_valid [DecidableEq ν] (val : ν → Rat) (k : Nat) (shells out : List (Shell ν))
    (hv : ∀ sh ∈ shells, ValidShell val sh ∧ sh.coefs ≠ [] ∧ sh.ftype ∈ knownTypes)
    (h : pruneShells val (uncontractSpdf k shells) = .ok out)
    (hdup : ∀ s ∈ out, s.am.length = 1 → (s.coefs.map (·.map val)).Nodup) :
    validateElement val (some out) none false = none := by
  apply pruneShells_valid val _ out _ h hdup
  intro s hs
  obtain ⟨sh, hsh, hcase⟩ := (mem_uncontractSpdf k shells s).1 hs
  rcases hcase with ⟨_, rfl⟩ | ⟨hf, ⟨rfl, hne⟩ | hin⟩
  · exact prepared_of_valid val _ (hv _ hsh).1 (hv _ hsh).2.1
  · exact (prepared_splitFused val k sh (hv sh hsh).1 hf (hv sh hsh).2.2).2 hne
  · exact (prepared_splitFused val k sh (hv sh hsh).1 hf (hv sh hsh).2.2).1 s hin

/-- **`make_general` as `get_basis` calls it (fused shells split first)** of a valid element is a valid element -/
theorem makeGeneral_valid_split [DecidableEq ν] (val : ν → Rat) (zero : ν) (hz : val zero = 0) (shells out : List (Shell ν))
    (hv : ∀ sh ∈ shells, ValidShell val sh ∧ sh.coefs ≠ [] ∧ sh.ftype ∈ knownTypes)
    (h : makeGeneral val zero false shells = .ok out)
    (hdup : ∀ s ∈ out, s.am.length = 1 → (s.coefs.map (·.map val)).Nodup) :
    validateElement val (some out) none false = none := by
  unfold makeGeneral at h
  simp only [Bool.false_eq_true, if_false] at h
  split at h
  · cases h
  · apply pruneShells_valid val _ out _ h hdup
    apply prepared_makeGeneralCore val zero hz
    intro s hs
    obtain ⟨sh, hsh, hcase⟩ := (mem_uncontractSpdf 0 shells s).1 hs
    rcases hcase with ⟨_, rfl⟩ | ⟨hf, ⟨rfl, hne⟩ | hin⟩
    · exact prepared_of_valid val _ (hv _ hsh).1 (hv _ hsh).2.1
    · exact (prepared_splitFused val 0 sh (hv sh hsh).1 hf (hv sh hsh).2.2).2 hne
    · exact (prepared_splitFused val 0 sh (hv sh hsh).1 hf (hv sh hsh).2.2).1 s hin

end BSE
