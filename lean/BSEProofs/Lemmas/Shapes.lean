import BSEModel.PruneFuncs
import BSEModel.Spdf
import BSEModel.MakeGeneral
import BSEModel.ManipOps
import BSEProofs.Lemmas.PruneFull
import BSEProofs.Lemmas.PruneValid
/-! Shape promises of the re-contraction operations (C02): what the *result* looks like, for every input. -/
namespace BSE
variable {ν : Type}

/-- every member of the pruned list is the pruning of a member of the input -/
theorem mem_pruneShells [DecidableEq ν] (val : ν → Rat) (shells out : List (Shell ν))
    (h : pruneShells val shells = .ok out) (s : Shell ν) (hs : s ∈ out) :
    ∃ sh ∈ shells, pruneShell val sh = .ok s := by
  unfold pruneShells at h
  cases hm : mapE (pruneShell val) shells with
  | error e => simp [hm] at h
  | ok ss =>
    simp only [hm] at h
    cases h
    have hs' : s ∈ ss := by
      have := (mem_dedup [] ss s).1 hs
      simpa using this
    obtain ⟨hl, hi⟩ := mapE_ok hm
    obtain ⟨i, hi', rfl⟩ := List.mem_iff_getElem.1 hs'
    have hlt : i < shells.length := by omega
    exact ⟨shells[i], List.getElem_mem _, hi i hlt hi'⟩

/-- the splitting step of `uncontract_general`: a single-momentum shell of the result has one contraction -/
theorem uncontractGeneralCore_shape (shells : List (Shell ν)) (s : Shell ν)
    (hs : s ∈ uncontractGeneralCore shells) (h1 : s.am.length = 1) : s.coefs.length = 1 := by
  unfold uncontractGeneralCore at hs
  simp only [List.mem_flatMap] at hs
  obtain ⟨sh, _, hin⟩ := hs
  split at hin
  · rename_i hc
    simp only [List.mem_singleton] at hin
    subst hin
    rcases hc with hc | hc
    · exact hc
    · omega
  · split at hin
    · simp only [List.mem_map] at hin
      obtain ⟨c, _, rfl⟩ := hin
      rfl
    · simp at hin

/-- **uncontract_general, whole operation**: no general contraction is left in a single-momentum shell -/
theorem uncontractGeneral_shape [DecidableEq ν] (val : ν → Rat) (shells out : List (Shell ν))
    (hw : ∀ sh ∈ shells, SemWF val sh) (h : uncontractGeneral val shells = .ok out)
    (s : Shell ν) (hs : s ∈ out) (h1 : s.am.length = 1) : s.coefs.length = 1 := by
  unfold uncontractGeneral at h
  obtain ⟨sh, hsh, hp⟩ := mem_pruneShells val _ out h s hs
  have hwf := semWF_uncontractGeneralCore val shells hw sh hsh
  have ham := (pruneShell_shape val sh s sh.exps.length rfl hwf.rect hwf.cols_ne hp).1
  rw [pruneShell_ncols_wf val sh s hwf hp]
  exact uncontractGeneralCore_shape shells sh hsh (ham ▸ h1)

/-- **uncontract_spdf**: whatever is still fused has no member above `max_am` — for every shell list -/
theorem uncontractSpdf_shape (k : Nat) (shells : List (Shell ν)) (s : Shell ν)
    (hs : s ∈ uncontractSpdf k shells) (hf : s.am.length > 1) : ∀ a ∈ s.am, a ≤ k := by
  obtain ⟨sh, _, hcase⟩ := (mem_uncontractSpdf k shells s).1 hs
  rcases hcase with ⟨hn, rfl⟩ | ⟨_, ⟨rfl, _⟩ | hin⟩
  · exact absurd hf hn
  · intro a ha
    simp only [splitFused, List.mem_map, List.mem_filter] at ha
    obtain ⟨p, ⟨_, hp⟩, rfl⟩ := ha
    simpa using hp
  · simp only [splitFused, List.mem_map] at hin
    obtain ⟨p, _, rfl⟩ := hin
    simp at hf

/-- the members split off by `uncontract_spdf` are single-momentum shells above `max_am`, one contraction each -/
theorem uncontractSpdf_split_off (k : Nat) (sh : Shell ν) (s : Shell ν) (hs : s ∈ (splitFused k sh).1) :
    ∃ a, s.am = [a] ∧ a > k ∧ s.coefs.length = 1 := by
  simp only [splitFused, List.mem_map, List.mem_filter] at hs
  obtain ⟨p, ⟨_, hp⟩, rfl⟩ := hs
  exact ⟨p.1, rfl, by simpa using hp, rfl⟩

theorem nodup_dedupKeys {κ : Type} [DecidableEq κ] (l : List κ) : (dedupKeys l).Nodup := by
  induction l with
  | nil => simp [dedupKeys]
  | cons k ks ih =>
    unfold dedupKeys
    rw [List.nodup_cons]
    refine ⟨?_, ih.sublist List.filter_sublist⟩
    simp [List.mem_filter]

theorem perm_insertAm (a : List Nat) (l : List (List Nat)) : (insertAm a l).Perm (a :: l) := by
  induction l with
  | nil => simp [insertAm]
  | cons b bs ih =>
    unfold insertAm
    split
    · exact List.Perm.refl _
    · exact (List.Perm.cons b ih).trans (List.Perm.swap a b bs)

theorem perm_sortAm (l : List (List Nat)) : (sortAm l).Perm l := by
  induction l with
  | nil => simp [sortAm]
  | cons a as ih =>
    have : sortAm (a :: as) = insertAm a (sortAm as) := rfl
    rw [this]
    exact (perm_insertAm a _).trans (List.Perm.cons a ih)

/-- `sorted(all_am)`: ascending by the (only) momentum -/
theorem sorted_insertAm (a : List Nat) (l : List (List Nat)) (h : l.Pairwise (fun x y => x.headD 0 ≤ y.headD 0)) :
    (insertAm a l).Pairwise (fun x y => x.headD 0 ≤ y.headD 0) := by
  induction l with
  | nil => simp [insertAm]
  | cons b bs ih =>
    unfold insertAm
    rw [List.pairwise_cons] at h
    split
    · rename_i hab
      rw [List.pairwise_cons]
      refine ⟨?_, List.pairwise_cons.2 h⟩
      intro y hy
      rcases List.mem_cons.1 hy with rfl | hy
      · exact hab
      · exact Nat.le_trans hab (h.1 y hy)
    · rename_i hab
      rw [List.pairwise_cons]
      refine ⟨?_, ih h.2⟩
      intro y hy
      rcases List.mem_cons.1 ((perm_insertAm a bs).subset hy) with rfl | hy
      · omega
      · exact h.1 y hy

theorem sorted_sortAm (l : List (List Nat)) : (sortAm l).Pairwise (fun x y => x.headD 0 ≤ y.headD 0) := by
  induction l with
  | nil => simp [sortAm]
  | cons a as ih =>
    have : sortAm (a :: as) = insertAm a (sortAm as) := rfl
    rw [this]
    exact sorted_insertAm a _ ih

/-- the merge step of `make_general`: the single-momentum shells of the result are exactly one per distinct momentum -/
theorem makeGeneralCore_single_ams [DecidableEq ν] (zero : ν) (shells : List (Shell ν)) :
    ((makeGeneralCore zero sortAm shells).filter (fun sh => ¬ sh.am.length > 1)).map (·.am)
      = sortAm (dedupKeys ((shells.filter (fun sh => ¬ sh.am.length > 1)).map (·.am))) := by
  unfold makeGeneralCore
  simp only [List.filter_append, List.map_append]
  have h1 : (List.filter (fun sh => decide (¬ sh.am.length > 1)) (List.filter (fun sh : Shell ν => decide (sh.am.length > 1)) shells)) = [] := by
    rw [List.filter_eq_nil_iff]
    intro s hs
    simp only [List.mem_filter, decide_eq_true_eq] at hs
    simp [hs.2]
  rw [h1]
  simp only [List.map_nil, List.nil_append]
  generalize hA : sortAm (dedupKeys ((shells.filter (fun sh => ¬ sh.am.length > 1)).map (·.am))) = A
  have hmem : ∀ am ∈ A, ¬ am.length > 1 := by
    intro am ham
    rw [← hA] at ham
    have := (perm_sortAm _).subset ham
    rw [mem_dedupKeys] at this
    simp only [List.mem_map, List.mem_filter, decide_eq_true_eq] at this
    obtain ⟨s, ⟨_, hs⟩, rfl⟩ := this
    exact hs
  clear hA
  induction A with
  | nil => rfl
  | cons a as ih =>
    simp only [List.map_cons]
    have ha : ¬ a.length > 1 := hmem a (by simp)
    have : (mergeGroup zero a (shells.filter (fun sh => sh.am = a))).am = a := rfl
    simp only [List.filter_cons, this, ha, decide_true, not_false_eq_true, if_true, List.map_cons]
    rw [ih (fun am h => hmem am (by simp [h]))]

/-- … hence pairwise distinct and ascending -/
theorem makeGeneralCore_shape [DecidableEq ν] (zero : ν) (shells : List (Shell ν)) :
    (((makeGeneralCore zero sortAm shells).filter (fun sh => ¬ sh.am.length > 1)).map (·.am)).Nodup ∧
    (((makeGeneralCore zero sortAm shells).filter (fun sh => ¬ sh.am.length > 1)).map (·.am)).Pairwise
      (fun x y => x.headD 0 ≤ y.headD 0) := by
  rw [makeGeneralCore_single_ams]
  exact ⟨(perm_sortAm _).nodup_iff.2 (nodup_dedupKeys _), sorted_sortAm _⟩

/-- fused shells pass through the merge step untouched -/
theorem makeGeneralCore_fused [DecidableEq ν] (zero : ν) (shells : List (Shell ν)) :
    (makeGeneralCore zero sortAm shells).filter (fun sh => sh.am.length > 1) = shells.filter (fun sh => sh.am.length > 1) := by
  unfold makeGeneralCore
  simp only [List.filter_append, List.filter_filter, Bool.and_self]
  have : (List.map (fun am => mergeGroup zero am (shells.filter (fun sh => sh.am = am)))
      (sortAm (dedupKeys ((shells.filter (fun sh => ¬ sh.am.length > 1)).map (·.am))))).filter (fun sh => sh.am.length > 1) = [] := by
    rw [List.filter_eq_nil_iff]
    intro s hs
    simp only [List.mem_map] at hs
    obtain ⟨am, ham, rfl⟩ := hs
    have := (perm_sortAm _).subset ham
    rw [mem_dedupKeys] at this
    simp only [List.mem_map, List.mem_filter, decide_eq_true_eq] at this
    obtain ⟨s, ⟨_, hs⟩, rfl⟩ := this
    have : (mergeGroup zero s.am (shells.filter (fun sh => sh.am = s.am))).am = s.am := rfl
    simp [this, hs]
  rw [this, List.append_nil]

/-- `dedup` keeps a sub-list (first occurrences, in order) behind what it starts from -/
theorem dedup_sublist [DecidableEq ν] (acc l : List (Shell ν)) : ∃ t, dedup acc l = acc ++ t ∧ t.Sublist l := by
  induction l generalizing acc with
  | nil => exact ⟨[], by simp [dedup], List.Sublist.refl _⟩
  | cons a as ih =>
    unfold dedup
    split
    · obtain ⟨t, ht, hs⟩ := ih acc
      exact ⟨t, ht, hs.cons a⟩
    · obtain ⟨t, ht, hs⟩ := ih (acc ++ [a])
      exact ⟨a :: t, by rw [ht]; simp, hs.cons_cons a⟩

theorem mapE_map_eq {α β γ ε : Type} {f : α → Except ε β} {l : List α} {r : List β} (g : β → γ) (g' : α → γ)
    (h : mapE f l = .ok r) (hg : ∀ x ∈ l, ∀ y, f x = .ok y → g y = g' x) : r.map g = l.map g' := by
  induction l generalizing r with
  | nil => simp [mapE] at h; subst h; rfl
  | cons a as ih =>
    simp only [mapE] at h
    cases hfa : f a with
    | error e => simp [hfa] at h
    | ok b =>
      simp only [hfa] at h
      cases hm : mapE f as with
      | error e => simp [hm] at h
      | ok bs =>
        simp only [hm] at h
        cases h
        simp only [List.map_cons]
        rw [hg a (by simp) b hfa, ih hm (fun x hx y hy => hg x (by simp [hx]) y hy)]

/-- pruning a list of well-formed shells keeps the momenta: the momentum lists of the result are a sub-list of the input's -/
theorem pruneShells_ams_sublist [DecidableEq ν] (val : ν → Rat) (shells out : List (Shell ν))
    (hw : ∀ sh ∈ shells, SemWF val sh) (h : pruneShells val shells = .ok out) :
    (out.map (·.am)).Sublist (shells.map (·.am)) := by
  unfold pruneShells at h
  cases hm : mapE (pruneShell val) shells with
  | error e => simp [hm] at h
  | ok ss =>
    simp only [hm] at h
    cases h
    have heq : ss.map (·.am) = shells.map (·.am) :=
      mapE_map_eq (·.am) (·.am) hm (fun x hx y hy =>
        (pruneShell_shape val x y x.exps.length rfl (hw x hx).rect (hw x hx).cols_ne hy).1)
    obtain ⟨t, ht, hs⟩ := dedup_sublist [] ss
    rw [ht, List.nil_append, ← heq]
    exact hs.map _

/-- **make_general, whole operation**: among the single-momentum shells of the result every momentum occurs once, in
ascending order; fused shells are not created -/
theorem makeGeneral_shape [DecidableEq ν] (val : ν → Rat) (zero : ν) (hz : val zero = 0) (skip : Bool)
    (shells out : List (Shell ν))
    (hw : ∀ sh ∈ (if skip then shells else uncontractSpdf 0 shells), SemWF val sh)
    (h : makeGeneral val zero skip shells = .ok out) :
    ((out.map (·.am)).filter (fun am => ¬ am.length > 1)).Nodup ∧
    ((out.map (·.am)).filter (fun am => ¬ am.length > 1)).Pairwise (fun x y => x.headD 0 ≤ y.headD 0) := by
  have key : ∀ s0 : List (Shell ν), (∀ sh ∈ s0, SemWF val sh) →
      pruneShells val (makeGeneralCore zero sortAm s0) = .ok out →
      ((out.map (·.am)).filter (fun am => ¬ am.length > 1)).Nodup ∧
      ((out.map (·.am)).filter (fun am => ¬ am.length > 1)).Pairwise (fun x y => x.headD 0 ≤ y.headD 0) := by
    intro s0 hw0 hp
    have hsem := semWF_makeGeneralCore val zero hz sortAm mem_sortAm s0 hw0
    have hsub := (pruneShells_ams_sublist val _ out hsem hp).filter (fun am => ¬ am.length > 1)
    have hcore := makeGeneralCore_shape zero s0
    have hrew : ((makeGeneralCore zero sortAm s0).map (·.am)).filter (fun am => ¬ am.length > 1)
        = ((makeGeneralCore zero sortAm s0).filter (fun sh => ¬ sh.am.length > 1)).map (·.am) := by
      rw [List.filter_map]; rfl
    rw [hrew] at hsub
    exact ⟨hcore.1.sublist hsub, hcore.2.sublist hsub⟩
  unfold makeGeneral at h
  cases skip with
  | true =>
    simp only [if_true] at h hw
    split at h
    · cases h
    · exact key shells hw h
  | false =>
    simp only [Bool.false_eq_true, if_false] at h hw
    split at h
    · cases h
    · exact key _ hw h

end BSE
