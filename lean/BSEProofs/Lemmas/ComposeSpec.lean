import BSEModel.Compose
import BSEProofs.Lemmas.Dict

/-! # `compose_elemental_basis` refines its specification

The implementation reads every component file once into a table and looks entries up in it; the specification
(`designated`) goes straight from the element file to the components of one element.  The theorem says that, whenever
the composition returns, each element of the result is the merge — in component order — of exactly the entries the
chain element file → components designates for it. -/

namespace BSE.Compose
open BSE

theorem bind_ok {α β : Type} (x : Except PyErr α) (f : α → Except PyErr β) (b : β) (h : (x >>= f) = .ok b) :
    ∃ a, x = .ok a ∧ f a = .ok b := by
  cases x with
  | error e => simp [bind, Except.bind] at h
  | ok a => exact ⟨a, rfl, by simpa [bind, Except.bind] using h⟩

theorem mapEx_ok {α β : Type} {f : α → Except PyErr β} {l : List α} {r : List β} (h : mapEx f l = .ok r) :
    r.length = l.length ∧ ∀ i (h1 : i < l.length) (h2 : i < r.length), f l[i] = .ok r[i] := by
  induction l generalizing r with
  | nil => simp [mapEx] at h; subst h; simp
  | cons a as ih =>
    simp only [mapEx] at h
    cases ha : f a with
    | error e => simp [ha] at h
    | ok b =>
      simp only [ha] at h
      cases hm : mapEx f as with
      | error e => simp [hm] at h
      | ok bs =>
        simp only [hm] at h
        cases h
        obtain ⟨hl, hi⟩ := ih hm
        refine ⟨by simp [hl], ?_⟩
        intro i h1 h2
        cases i with
        | zero => simpa using ha
        | succ k => simpa using hi k (by simpa using h1) (by simpa using h2)

theorem mapEx_congr_mem {α β : Type} (f g : α → Except PyErr β) (l : List α) (h : ∀ x ∈ l, f x = g x) :
    mapEx f l = mapEx g l := by
  induction l with
  | nil => rfl
  | cons a as ih =>
    simp only [mapEx, h a (by simp), ih (fun x hx => h x (by simp [hx]))]

theorem mem_dedupStr (l : List String) (x : String) : x ∈ dedupStr l ↔ x ∈ l := by
  induction l with
  | nil => simp [dedupStr]
  | cons a as ih =>
    simp only [dedupStr, List.mem_cons, List.mem_filter, ih]
    constructor
    · rintro (h | ⟨h, _⟩)
      · exact Or.inl h
      · exact Or.inr h
    · intro h
      by_cases hx : x = a
      · exact Or.inl hx
      · rcases h with h | h
        · exact absurd h hx
        · exact Or.inr ⟨h, by simpa using hx⟩

/-- the table built by reading every file once answers a lookup with what reading that file gives -/
theorem memo_lookup_gen {β : Type} (F : String → Except PyErr (String × β)) (g : String → Except PyErr β)
    (hF : ∀ f p, F f = .ok p → p.1 = f ∧ g f = .ok p.2)
    (files : List String) (tbl : List (String × β)) (h : mapEx F files = .ok tbl) (c : String) (hc : c ∈ files) :
    ∃ y, g c = .ok y ∧ (tbl.find? (·.1 == c)).map (·.2) = some y := by
  induction files generalizing tbl with
  | nil => cases hc
  | cons f fs ih =>
    simp only [mapEx] at h
    cases hf : F f with
    | error e => simp [hf] at h
    | ok p =>
      simp only [hf] at h
      cases hm : mapEx F fs with
      | error e => simp [hm] at h
      | ok rest =>
        simp only [hm] at h
        cases h
        obtain ⟨hp1, hp2⟩ := hF f p hf
        by_cases hfc : f = c
        · subst hfc
          exact ⟨p.2, hp2, by simp [hp1]⟩
        · have hc' : c ∈ fs := by
            rcases List.mem_cons.1 hc with h | h
            · exact absurd h.symm hfc
            · exact h
          obtain ⟨y, hy, hfind⟩ := ih rest hm hc'
          refine ⟨y, hy, ?_⟩
          rw [List.find?_cons_of_neg (by simpa [hp1] using hfc)]
          exact hfind

theorem memo_lookup {β : Type} (g : String → Except PyErr β) (files : List String) (tbl : List (String × β))
    (h : mapEx (fun f => do let c ← g f; pure (f, c)) files = .ok tbl) (c : String) (hc : c ∈ files) :
    ∃ y, g c = .ok y ∧ (tbl.find? (·.1 == c)).map (·.2) = some y := by
  apply memo_lookup_gen _ g _ files tbl h c hc
  intro f p hp
  cases hg : g f with
  | error e => simp [hg, bind, Except.bind] at hp
  | ok y =>
    simp only [hg, bind, Except.bind, pure, Except.pure] at hp
    cases hp
    exact ⟨rfl, rfl⟩

/-- **`compose_elemental_basis` refines the specification.**  If it returns `r` for the element file `p`, then `r` is
the element file with its `elements` replaced, entry by entry and in the same order, by the merge (in component order)
of exactly the entries `designated dir p z` names — the per-file table the code builds is invisible. -/
theorem composeElemental_spec (dir : Dir) (p : String) (r : Dict) (h : composeElemental dir p = .ok r) :
    ∃ (el_bs els : Dict) (newEls : List (String × J)),
      readBasis dir p = .ok el_bs ∧ Dict.get? el_bs "elements" = some (.obj els)
      ∧ r = Dict.set el_bs "elements" (.obj newEls)
      ∧ newEls.length = els.length
      ∧ ∀ i (h1 : i < els.length) (h2 : i < newEls.length), Dict.get? els els[i].1 = some els[i].2 →
          ∃ datas merged, designated dir p els[i].1 = .ok datas ∧ mergeElementData datas [] = .ok merged
            ∧ newEls[i] = (els[i].1, J.obj merged) := by
  unfold composeElemental at h
  obtain ⟨el_bs, h1, h⟩ := bind_ok _ _ _ h
  obtain ⟨j, h2, h⟩ := bind_ok _ _ _ h
  obtain ⟨els, h3, h⟩ := bind_ok _ _ _ h
  obtain ⟨comps, h4, h⟩ := bind_ok _ _ _ h
  simp only [] at h
  obtain ⟨cmap, h5, h⟩ := bind_ok _ _ _ h
  obtain ⟨newEls, h6, h⟩ := bind_ok _ _ _ h
  have hr : r = Dict.set el_bs "elements" (.obj newEls) := by
    simp only [pure, Except.pure, Except.ok.injEq] at h; exact h.symm
  have hj : j = .obj els := by
    cases j <;> simp [asObj] at h3
    subst h3; rfl
  have hget : Dict.get? el_bs "elements" = some (.obj els) := by
    unfold getKey at h2
    cases hg : Dict.get? el_bs "elements" with
    | none => simp [hg] at h2
    | some v => simp only [hg, Except.ok.injEq] at h2; rw [h2, hj]
  obtain ⟨hcl, hci⟩ := mapEx_ok h4
  obtain ⟨hnl, hni⟩ := mapEx_ok h6
  have hzl : (els.zip comps).length = els.length := by simp [hcl]
  refine ⟨el_bs, els, newEls, h1, hget, hr, by rw [hnl, hzl], ?_⟩
  intro i hi1 hi2 hfirst
  have hic : i < comps.length := by omega
  have hiz : i < (els.zip comps).length := by omega
  have hstep := hni i hiz hi2
  rw [List.getElem_zip] at hstep
  simp only at hstep
  obtain ⟨datas, hd, hstep⟩ := bind_ok _ _ _ hstep
  obtain ⟨merged, hm, hstep⟩ := bind_ok _ _ _ hstep
  have hnew : newEls[i] = (els[i].1, J.obj merged) := by
    simp only [pure, Except.pure, Except.ok.injEq] at hstep; exact hstep.symm
  refine ⟨datas, merged, ?_, hm, hnew⟩
  -- the specification side, step by step
  unfold designated
  rw [h1]
  simp only [bind, Except.bind]
  rw [h2, hj]
  simp only [asObj]
  have hk : getKey els els[i].1 = .ok els[i].2 := by unfold getKey; rw [hfirst]
  rw [hk]
  simp only
  rw [hci i hi1 hic]
  simp only
  rw [← hd]
  apply mapEx_congr_mem
  intro c hc
  have hcf : c ∈ dedupStr comps.flatten := by
    rw [mem_dedupStr]
    exact List.mem_flatten.2 ⟨comps[i], List.getElem_mem _, hc⟩
  obtain ⟨y, hy, hfind⟩ := memo_lookup (loadComponent dir) _ cmap h5 c hcf
  rw [hy, hfind]

/-- **`compose_table_basis` refines the specification.**  If it returns `t` for the table file `p`, then `t` is the table
file with (1) every element replaced, in order, by that element's entry in the composed element file the table names
for it, (2) `version` read from the file name, (3) `function_types` recomputed from the composed elements, (4) the
basis metadata file merged over it, (5) the schema stamp. -/
theorem composeTable_spec (dir : Dir) (p : String) (t : Dict) (h : composeTable dir p = .ok t) :
    ∃ (table els md : Dict) (newEls : List (String × J)) (v : String),
      readBasis dir p = .ok table ∧ Dict.get? table "elements" = some (.obj els)
      ∧ versionOf p = .ok v ∧ readBasis dir (metaPath p) = .ok md
      ∧ t = Dict.set (Dict.update (Dict.set (Dict.set (Dict.set table "elements" (.obj newEls)) "version" (.str v))
                "function_types" (wholeTypes newEls)) md)
              "molssi_bse_schema" (.obj [("schema_type", .str "complete"), ("schema_version", .str "0.1")])
      ∧ newEls.length = els.length
      ∧ ∀ i (h1 : i < els.length) (h2 : i < newEls.length),
          ∃ (f : String) (data dels : Dict) (val : J), els[i].2 = .str f ∧ composeElemental dir f = .ok data
            ∧ Dict.get? data "elements" = some (.obj dels) ∧ Dict.get? dels els[i].1 = some val
            ∧ newEls[i] = (els[i].1, val) := by
  unfold composeTable at h
  obtain ⟨table, h1, h⟩ := bind_ok _ _ _ h
  obtain ⟨j, h2, h⟩ := bind_ok _ _ _ h
  obtain ⟨els, h3, h⟩ := bind_ok _ _ _ h
  obtain ⟨efiles, h4, h⟩ := bind_ok _ _ _ h
  obtain ⟨emap, h5, h⟩ := bind_ok _ _ _ h
  obtain ⟨newEls, h6, h⟩ := bind_ok _ _ _ h
  obtain ⟨v, h7, h⟩ := bind_ok _ _ _ h
  obtain ⟨md, h8, h⟩ := bind_ok _ _ _ h
  have ht : t = Dict.set (Dict.update (Dict.set (Dict.set (Dict.set table "elements" (.obj newEls)) "version" (.str v))
                "function_types" (wholeTypes newEls)) md)
              "molssi_bse_schema" (.obj [("schema_type", .str "complete"), ("schema_version", .str "0.1")]) := by
    simp only [pure, Except.pure, Except.ok.injEq] at h; exact h.symm
  have hj : j = .obj els := by
    cases j <;> simp [asObj] at h3
    subst h3; rfl
  have hget : Dict.get? table "elements" = some (.obj els) := by
    unfold getKey at h2
    cases hg : Dict.get? table "elements" with
    | none => simp [hg] at h2
    | some w => simp only [hg, Except.ok.injEq] at h2; rw [h2, hj]
  obtain ⟨hfl, hfi⟩ := mapEx_ok h4
  obtain ⟨hnl, hni⟩ := mapEx_ok h6
  have hzl : (els.zip efiles).length = els.length := by simp [hfl]
  refine ⟨table, els, md, newEls, v, h1, hget, h7, h8, ht, by rw [hnl, hzl], ?_⟩
  intro i hi1 hi2
  have hif : i < efiles.length := by omega
  have hiz : i < (els.zip efiles).length := by omega
  have hstep := hni i hiz hi2
  rw [List.getElem_zip] at hstep
  simp only at hstep
  -- the element file named for this element, looked up in the table of composed element files
  have hstr : els[i].2 = .str efiles[i] := by
    have := hfi i hi1 hif
    cases he : els[i].2 <;> simp [asStr, he] at this
    rw [this]
  have hmem : efiles[i] ∈ dedupStr efiles := (mem_dedupStr _ _).2 (List.getElem_mem _)
  obtain ⟨data, hdata, hfind⟩ := memo_lookup (composeElemental dir) _ emap h5 efiles[i] hmem
  rw [hfind] at hstep
  simp only at hstep
  obtain ⟨je, hje, hstep⟩ := bind_ok _ _ _ hstep
  obtain ⟨dels, hdels, hstep⟩ := bind_ok _ _ _ hstep
  have hjeo : je = .obj dels := by
    cases je <;> simp [asObj] at hdels
    subst hdels; rfl
  have hgd : Dict.get? data "elements" = some (.obj dels) := by
    unfold getKey at hje
    cases hg : Dict.get? data "elements" with
    | none => simp [hg] at hje
    | some w => simp only [hg, Except.ok.injEq] at hje; rw [hje, hjeo]
  cases hv : Dict.get? dels els[i].1 with
  | none => simp [hv] at hstep
  | some val =>
    simp only [hv, pure, Except.pure, Except.ok.injEq] at hstep
    exact ⟨efiles[i], data, dels, val, hstr, hdata, hgd, hv, hstep.symm⟩

end BSE.Compose
