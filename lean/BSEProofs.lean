import BSEModel
